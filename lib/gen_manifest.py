#!/usr/bin/env python3
"""Regenerates /verif/MANIFEST.json from the table below (single source of truth for the interface file)."""
import json, os, sys
V = os.path.dirname(os.path.dirname(os.path.abspath(__file__)))

TB = "TLC 1.8 + CommunityModules Json; the harness's concretisation/projection code; SQLite; the Go toolchain. SQLite engine only."

CHECKS = {
 "C01": dict(cat="model_checking", ref="DESIGN.md §5 C01",
   text="Chain.tla states the ideal ingestion rule; TLC checks LongestIsPathToBest/TipIsBest/OrphanRule/StructValid on all reachable stores within the bound, then EVERY history TLC enumerates (all parent choices x work classes x orphan/forbidden/resubmit/restart placements, N<=4..5) plus simulated long histories are replayed through the real SQLite+sql+repository+service+gin stack and every answer, the full label table and the tip are compared after every step; Go-driven long random histories are recorded and validated by TLC (Trace_Chain.tla).",
   technique="explicit TLA+ spec (Chain.tla) model-checked by TLC; exhaustive TLC path enumeration replayed into the real stack + TLC trace validation of recorded executions",
   note=TB + " Exhaustive up to the stated bound on the real code, sampled beyond. Zero-work tip extension is a listed known finding (followed as a named deviation)."),
 "C03": dict(cat="model_checking", ref="DESIGN.md §5 C03",
   text="Same specification and replay as C01 with the C03 observations: after every step every stored row's hash (harness's own SHA-256d), height, work, cumulative work and the six received fields are compared through the table, service.GetHeaderByHash and the two HTTP routes; TLC checks DerivedFieldsExact and the action property Immutable; histories include close/reopen.",
   technique="explicit TLA+ spec (Chain.tla: DerivedFieldsExact, Immutable) checked by TLC; TLC-generated histories replayed into the real stack with boundary field values",
   note=TB + " Field values are boundary + seeded random values, not all 2^32."),
 "C02": dict(cat="model_checking", ref="DESIGN.md §5 C02",
   text="Verify/Verdict are operators of Chain.tla; TLC checks VerdictsExact on every reachable store and the action property VerdictsTrackChain across every relabelling step; for every DISTINCT reachable store (shared merkle-root class so that stale siblings share root+height with longest blocks) TLC emits the complete verdict table (every root x height -1..tip+excess+2 x excess 0,1,3; singletons, the full list and a duplicated list) and the harness posts each request to /chain/merkleroot/verify on the real stack, comparing per-item verdict, block hash, order and the aggregate.",
   technique="explicit TLA+ spec (Chain.tla: Verdict/Verify, VerdictsTrackChain) checked by TLC; TLC-emitted complete answer tables for every distinct store replayed against the real HTTP endpoint",
   note=TB + " Stores of up to 4 (quick) / 5 (thorough) headers; request lists beyond the three shapes are not enumerated."),
 "C04": dict(cat="model_checking", ref="DESIGN.md §5 C04",
   text="Every read endpoint is an operator of Chain.tla; for every distinct reachable store TLC emits the complete table of answers (by hash/state for every id incl. unknown, by-height windows, tips, every ordered pair for ancestors, every subset of size<=3 for common ancestor) and the harness sends each query through gin over the real SQL stack, comparing status, error class and body; a row-level digest of the headers table is compared before/after all reads.",
   technique="explicit TLA+ spec (Chain.tla read operators) + TLC distinct-state enumeration; complete expected-answer tables replayed against the real HTTP API",
   note=TB + " Queries that involve a header whose parent arrived after it (height restarts at 1) are not asserted: the property text does not define them."),
 "C08": dict(cat="model_checking", ref="DESIGN.md §5 C08",
   text="MerklePage/WalkFrom are operators of Chain.tla; TLC checks WalkCoversLongestOnce and PagesBounded on every reachable store and WalkSurvivesTipGrowth across every step; for every distinct store the complete page table (batch 0..tip+3 x every stored root, no key, unknown key) is compared with GET /chain/merkleroot on the real stack (content, order, last key, size, total, 404/409).",
   technique="explicit TLA+ spec (Chain.tla: MerklePage, WalkCoversLongestOnce) checked by TLC; complete page tables for every distinct store replayed against the real endpoint",
   note=TB + " Because a page is a function of (store, batch, key) only, interleaved walks are covered by checking every page on every store plus the TLC action property."),
 "C13": dict(cat="model_checking", ref="DESIGN.md §5 C13",
   text="Locator/LocatorHeights/GetHeaders are operators of Chain.tla; TLC checks LocatorShape and GetHeadersIsNextSegment on every reachable store; for every distinct store the locator and the getheaders answers for every locator set of size<=2 (both orders) and the full set x every stop (zero, every id, unknown) are compared with LatestHeaderLocator / LocateHeaders / LocateHeadersGetHeaders on the real stack; a 4100-header chain with stale branches exercises the 2000 cap and the doubling steps against the same operators.",
   technique="explicit TLA+ spec (Chain.tla: Locator, GetHeaders) checked by TLC; complete answer tables replayed against the real service; long-chain vectors validated by TLC",
   note=TB + " Empty locators are not asserted (protocol meaning is ambiguous). Stop hash = genesis is a listed known finding."),
 "C06": dict(cat="model_checking", ref="DESIGN.md §5 C06",
   text="Sync.tla (legacy SyncManager: one action per handled message, per-peer queues, sync-peer choice, headers-first mode, checkpoint cursor, duplicate-getheaders filter, ban list) and SyncExp.tla (experimental Peer: checkpoint cursor, sendheaders mode) over the Chain.tla store; TLC checks StoreValid, BannedStayOut and ConvergesOrListed (a terminal state behind the best chain offered must be explained by a listed single-sync-peer limitation) on every state of each scenario family; every lock-step behaviour TLC enumerates (connect with any best block, reply, announce by inv or headers, go away, reconnect; sampled) is replayed on the real p2p server / real experimental Peer with scripted protocol nodes over loopback TCP and the real SQL stack; at the end all nodes answer until nothing is asked and the store is compared with the best chain offered.",
   technique="explicit TLA+ specs (Sync.tla, SyncExp.tla) model-checked by TLC; TLC-enumerated peer behaviours replayed into the real server/engine with scripted nodes; outcome compared with the specification's terminal state",
   note=TB + " Lock-step schedules only (free interleavings are on the specification); the random sync-peer choice among several candidates is not replayed; stall timers are modelled as the node going away."),
 "C07": dict(cat="model_checking", ref="DESIGN.md §5 C07",
   text="Same specifications and rigs as C06; TLC checks ForbiddenNeverStoredS / XForbiddenNeverStored and BannedStayOut on every state; in every replayed behaviour, after each step the scripted node that delivered a forbidden header or a header contradicting a checkpoint must be disconnected (and its host refused afterwards by the legacy server), nothing further may be requested from it, forbidden blocks must be absent from the store, and a matching checkpoint header must be followed by the request for the next checkpoint / the unbounded request.",
   technique="explicit TLA+ specs (Sync.tla, SyncExp.tla) model-checked by TLC; TLC-enumerated misbehaving-peer behaviours replayed into the real server/engine; per-step containment oracle",
   note=TB + " Positions of the offending header within a batch are those the scenario families produce (caps 2-4, forks at heights 0-2)."),
 "C05": dict(cat="fault_enumeration", ref="DESIGN.md §5 C05",
   text="ChainSteps.tla models Add at repository-call grain (three separate write transactions); TLC checks LValid, AckedNeverLost, NotStuck, RedeliveryRecovers (store after restart + redelivery = store of the uninterrupted run) and RestartChangesNothing on every state for every history x every write boundary as kill point or failing write; every such behaviour TLC enumerates (fault, restart, full redelivery) is replayed on the real stack with a decorator around repository.Headers that kills or fails exactly that write, database.Init reopens the same file, and answers + full table are compared after every step.",
   technique="explicit TLA+ spec (ChainSteps.tla) model-checked by TLC; TLC-enumerated fault/restart/redelivery behaviours replayed into the real stack through a fault-injecting repository decorator",
   note=TB + " Kill points are transaction boundaries; one or two faults per behaviour; redelivery is in the original order."),
 "C11": dict(cat="model_checking", ref="DESIGN.md §5 C11",
   text="Notify.tla models the fan-out (one independent delivery task per channel per stored header); TLC checks NoEventWithoutStore, AtMostOnce, ExactlyOncePerChannel at quiescence, IngestionNeverWaits, ChannelsIndependent and the liveness EventuallyDelivered with one failing and one blocked channel; TLC-generated ingestion histories (duplicates, forbidden, orphans, reorgs, restarts, injected insert failures) are replayed with recording channels on the real Notifier: plain, slow/blocking, the real websocket channel over a recording publisher, the real WebhooksService over SQL with a scripted client; per channel the multiset of events and all nine fields are compared with the stored headers.",
   technique="explicit TLA+ spec (Notify.tla) model-checked by TLC incl. liveness; TLC-generated histories replayed into the real notifier/channels with recording sinks",
   note=TB + " The centrifuge node and a real websocket client are not in the loop (recording WebsocketPublisher)."),
 "C09": dict(cat="model_checking", ref="DESIGN.md §5 C09",
   text="Access.tla holds the middleware decision Decide(route class, credential class, use_auth); TLC checks NoApiHandlerWithoutValidToken / AdminOnlyForTokenMgmt / AuthOffOpens over the full product and emits the decision table; the harness enumerates gin Engine.Routes() at run time (new routes are included), classifies by path prefix only, and instantiates every table row on every route and method for use_auth on/off x profiling on/off: 401 + structured single-JSON body + unchanged tokens/webhooks/headers tables for rejected requests, not-401 for admitted ones; any route outside /api/v1 that is not status/swagger/metrics/pprof/websocket is a violation.",
   technique="explicit TLA+ decision table (Access.tla) checked and emitted by TLC; replayed on every route of the real gin routing table",
   note=TB + " Handlers behind pprof/swagger/websocket-upgrade routes are not invoked (existence only); websocket connect is covered by C10."),
 "C10": dict(cat="model_checking", ref="DESIGN.md §5 C10",
   text="Access.tla models the token set (issued, revoked, admin=0); TLC checks AdminAlways, RevokedNeverValid, RevocationIsForEver, OthersUnaffected, RejectedChangesNothing; TLC enumerates EVERY sequence of create/revoke(existing|unknown|admin|already revoked, as admin or as user)/restart of length 5 (6 sampled in thorough) and the harness replays each over gin + the SQL token repository, presenting EVERY token (admin, issued, revoked, never issued) on two HTTP routes after EVERY step, and performing a real centrifuge-go websocket connect handshake against the real websocket server after every step (all histories in thorough, 1/40 in quick); close/reopen for restart; issued tokens pairwise distinct.",
   technique="explicit TLA+ set model (Access.tla) model-checked by TLC; exhaustive TLC op sequences replayed over HTTP + real websocket connect",
   note=TB),
 "C12": dict(cat="model_checking", ref="DESIGN.md §5 C12",
   text="Webhooks.tla models per-url [registered, active, errors, auth, last]; TLC checks InactiveIffErrorsReachedMax, SuccessResets, InactiveOrDeletedNotCalled, OnePostPerEventWithExactAuth, ReRegisterRule for max_tries 1,2,3(,5); TLC enumerates every sequence of register(bearer|custom|none)/delete/notify(outcome per called hook: 200, 500, transport error, unreadable body)/restart over two urls to depth 4-5 and simulates to depth 12-24; each is replayed over the HTTP endpoints + SQL webhook repository + real WebhooksService with a scripted client AND with the production client posting to an httptest server (method, exact auth header, body recorded server-side); after EVERY operation GET /webhook?url= of every url (active, errorsCount, last status, timestamp) is compared.",
   technique="explicit TLA+ spec (Webhooks.tla) model-checked by TLC; TLC-generated operation sequences replayed over HTTP + SQL + the real service and production client",
   note=TB),
 "C16": dict(cat="exploration", ref="DESIGN.md §5 C16, §6",
   text="ApiErrors.tla defines, per API route, the classes of every path/query/body parameter and the status family the server owes for each combination (never 5xx; validatable mistakes 4xx); TLC emits the full product (243 rows); each row is concretised several times (4 quick / 40 thorough) by a seeded grammar and sent through the production gin engine with gin.Recovery over the real stack on a store with a fork and an orphan chain; checked: no 5xx, status family, body exactly one JSON value, 4xx with non-empty code and message, headers-table digest unchanged.",
   technique="explicit TLA+ request-class table (ApiErrors.tla) emitted by TLC; grammar-concretised requests against the real gin engine and SQL stack",
   note=TB + " 'Any HTTP request whatsoever' is approximated by the class product with several instances per class; requests that match no registered route are out of scope."),
 "C20": dict(cat="model_checking", ref="DESIGN.md §5 C20",
   text="Config.tla defines Effective(sources) = env over file over default per key type and the database-section validation table; TLC checks Precedence / InvalidDbRefused on the tables and emits them; the harness enumerates EVERY leaf key of AppConfig by reflection over the mapstructure tags (new keys are included), and for every key x every subset of {env, file} writes a temporary YAML, sets/unsets the BHS_ variable, runs viper.Reset + config.SetDefaults + config.Load and compares the field, also checking that every OTHER key kept its default; all 320 meaningful validation rows go through Load (file or environment) + AppConfig.Validate.",
   technique="explicit TLA+ tables (Config.tla) checked and emitted by TLC; instantiated on every reflected configuration key through the real viper-based loader",
   note=TB + " Empty values cannot be expressed by a source (viper keeps the default); they are set on the loaded structure before Validate."),
 "C15": dict(cat="model_checking", ref="DESIGN.md §5 C15",
   text="ChainSteps.tla with 2-3 submitter processes and a reader interleaved at repository-call grain: TLC checks LValid, NeverTwoLongestAtOneHeight, ReaderSeesValidTip and SerialOutcome (the store equals Chain.AddRow folded in SOME order) on every state, and must find the violation when the Add mutex is removed from the model (sensitivity); real goroutines (competing children of the tip, forks, children of in-flight headers, readers) run over the real SQL stack under a harness scheduler that grants repository calls one at a time in seeded random order; every snapshot after a write, every reader observation and the final store are validated by TLC against Trace_Conc.tla; the same scenarios run free under the Go race detector with HTTP readers (incl. /network/peer).",
   technique="explicit TLA+ spec (ChainSteps.tla) model-checked by TLC over all interleavings; recorded real-goroutine executions validated by TLC (Trace_Conc.tla); Go race detector as a monitor",
   note=TB + " Real-code schedules are seeded random at repository-call granularity (exhaustive enumeration is on the specification). Peer connect/disconnect churn is exercised by the C06 rig."),
 "C19": dict(cat="exploration", ref="DESIGN.md §5 C19, §6",
   text="Compact.tla defines target, work (by the defining inequality of floor(2^256/(t+1))) and floor(log2) over arbitrary-precision naturals implemented in TLA+ (BigNat.tla); the harness RECORDS what domains.CompactToBig / CalculateWork / FastLog2Floor compute for all 256 exponents x both signs x a 19-point mantissa lattice, real network bits and random 32-bit values, and for the window [2^k-140, 2^k+3] around every power of two; TLC validates every recorded line against the specification (exact target and sign, work inequality, work antitone between target-sorted neighbours, log2 bounds).",
   technique="explicit TLA+ definitional spec (Compact.tla/BigNat.tla); recorded arithmetic results validated line by line by TLC (trace validation)",
   note="Trusted: TLC, Json module. The 2^32 domain is sampled (≈1.5e4 quick, ≈2e5 thorough), not enumerated: complete enumeration is out of TLC's reach (stated in DESIGN.md §6)."),
 "C14": dict(cat="exploration", ref="DESIGN.md §5 C14, §6",
   text="Wire.tla models the frame parser as a state machine (header, global limit, magic, command utf8/known, per-type limit, payload read, checksum, decode) and gives the owed verdict for every buildable combination of frame classes x 18 message kinds (2141 rows, emitted by TLC; TLC checks RoundTrip, HostileRejected, AllocationBounded on the table); each row is concretised several times (3 quick / 40 thorough) at three protocol versions with random field values within protocol limits (times over the whole uint32 range); verdict compared; valid frames round-tripped (decoded value equality, byte-identical re-encoding through WriteMessage); every decode runs under a watchdog with allocation accounting; plus raw random bytes and bit-flip/truncation/splice mutations of valid frames.",
   technique="explicit TLA+ parser state machine (Wire.tla) checked and emitted by TLC; class-wise concretised frames and mutated frames against wire.ReadMessage/WriteMessage",
   note="The specification enumerates classes of frames; arbitrary mutated byte strings are sampled, not enumerated (a coverage-guided byte-level fuzzer is outside this technique family; DESIGN.md §6)."),
 "C17": dict(cat="model_checking", ref="DESIGN.md §5 C17",
   text="For distinct reachable stores of Chain.tla (stale and orphan headers present, zero-work and boundary field values) TLC emits the expected export (longest chain by height) and the verdict table of the import for every newest-checkpoint height x every single-row corruption class (malformed number/columns/hash, changed field, dropped row, duplicated row) x every row position; the harness runs database.ExportHeaders on the replayed store, compares the CSV row by row, imports each (corrupted) file into a fresh SQLite database with database.Init(prepared_db) and compares: accepted imports reproduce hashes, heights, fields, cumulative work, all LONGEST_CHAIN; refused imports fail start-up AND a second start on the same database fails too; a populated or genesis-only database is never touched by an import.",
   technique="explicit TLA+ spec (Chain.tla store + import verdict operator in MC_Chain.tla) enumerated by TLC; export/import of every sampled store and corruption replayed on the real exporter/importer",
   note=TB + " Stores are sampled from the exhaustive enumeration (100 quick / 6000 thorough) because each import needs a fresh database."),
 "C18": dict(cat="model_checking", ref="DESIGN.md §5 C18",
   text="Admission.tla (peer set, ban entries, derived per-host / per-group / total counters) is model-checked exhaustively with small constants (TotalAtMostMaxPeers, PerHostAtMostLimit, NoAdmissionWhileBanned, AdmittedAgainAfterExpiry, CountersReturnToZero) and simulated at the code's constants (125 peers, 5 per host, up to 30 hosts, depth 420); the behaviours are replayed on the real handleAddPeerMsg / handleDonePeerMsg / handleBanPeerMsg (overlay test file in package p2p) with peers that completed a real version handshake; return value, Connected() and all three counter maps are compared after every step. ConnMgr.tla models the outbound connection manager (invariants SlotsNeverLost, OpenAtMostTarget, liveness BackToTarget under fairness; TLC must find the violation under the BanLosesSlot deviation); the REAL connmgr is driven with scripted Dial / GetNewAddress / BanAddress / disconnect requests (target 1..8, 1 ms retry), events are logged under one mutex and validated by TLC against Trace_ConnMgr.tla (never above target, ban only after 25 consecutive failures, back at target at every quiescent point).",
   technique="explicit TLA+ specs (Admission.tla, ConnMgr.tla) model-checked by TLC incl. liveness; TLC behaviours replayed on the real admission handlers; recorded connmgr executions validated by TLC",
   note="Ban expiry uses a 150 ms ban and real sleeps (timing-unreliable steps are abandoned, never reported). Persistent peers are exempt from the per-host counter as in the code."),
}

NA = []

def main():
    checks = []
    for pid in sorted(CHECKS):
        c = CHECKS[pid]
        checks.append({
            "property_id": pid,
            "quick_cmd": "./check %s --tier quick" % pid,
            "thorough_cmd": "./check %s --tier thorough" % pid,
            "evidence_file": "/verif/evidence/%s.json" % pid,
            "replay_cmd_template": "./check %s --replay {path}" % pid,
            "engine": "tlc+go-conformance",
            "level_claimed": {"category": c["cat"], "text": c["text"], "design_ref": c["ref"]},
            "level_note": c["note"],
            "technique": c["technique"],
        })
    props = [json.loads(l)["id"] for l in open(os.path.join(V, "properties.jsonl"))]
    na = list(NA)
    listed = {x["property_id"] for x in na}
    for p in props:
        if p not in CHECKS and p not in listed:
            na.append({"property_id": p, "reason": "not yet built in this session (planned: see DESIGN.md §5 %s); no claim is made" % p})
    m = {
        "version": 1,
        "setup_cmd": "./check --setup",
        "hooks": {"guard": "verif", "enable": "go test -tags verif -overlay <generated overlay> (harness sources live in /verif/harness and are compiled into the repository's module through a build overlay; no hook commit was needed)",
                  "baseline_off_cmd": "cd /repo && GOFLAGS=-mod=mod go test -vet=off -count=1 -p 1 ./...",
                  "source_commits": [], "add_only": True},
        "engines": [{"name": "tlc+go-conformance", "path": "/verif/check", "serves_properties": sorted(CHECKS),
                     "kind_free_text": "explicit TLA+ specifications under /verif/spec checked by TLC; TLC-generated behaviours replayed into the real code and recorded executions validated by TLC"}],
        "checks": checks,
        "notes": "Verdicts come only from behaviour of the real code that the specification cannot explain; exit 2 = infrastructure failure. Known findings: /verif/known_findings.jsonl.",
        "not_applicable": na,
    }
    json.dump(m, open(os.path.join(V, "MANIFEST.json"), "w"), indent=1)
    print("MANIFEST.json: %d checks, %d not claimed" % (len(checks), len(na)))

if __name__ == "__main__":
    main()
