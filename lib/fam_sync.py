"""Sync family (C06, C07): Sync.tla / MC_Sync.tla generation and replay on the P2P rig."""
import os, random, json
import common as c

BASE = {"MaxN": 40, "Works": "{1}", "SharedRoots": "FALSE", "MaxFuture": 0, "MaxForb": 0, "Deviations": "{}"}


def sync_consts(H, F=0, ForkAt=0, CpHs=(2,), Peers=(1, 2), Cap=2, CpEnabled=True, Forbid=(), Findings=(), MaxEnv=6, MaxConnects=2, Emit="none", Scenario="s", MaxRestarts=0, MaxAsks=0, MaxRaw=0, F2=0, ForkAt2=0):
    d = dict(BASE)
    d.update({"Peers": c.tla_set(Peers), "Cap": Cap, "CpEnabled": "TRUE" if CpEnabled else "FALSE", "Forbid": c.tla_set(Forbid),
              "Findings": c.tla_set(Findings), "H": H, "F": F, "ForkAt": ForkAt, "CpHs": c.tla_set(CpHs), "MaxEnv": MaxEnv,
              "MaxConnects": MaxConnects, "MaxRestarts": MaxRestarts, "MaxAsks": MaxAsks, "MaxRaw": MaxRaw, "F2": F2, "ForkAt2": ForkAt2, "Emit": '"%s"' % Emit, "Scenario": '"%s"' % Scenario})
    return d


EXTRA = ["CONSTANT Par <- ParV", "CONSTANT Cps <- CpsV"]


def tlc(consts, invariants, properties=(), view="SyView", emit_file=None, simulate=None, depth=None, seed=None, timeout=1800, workers=None, constraint=None, scripts=None):
    d = c.sub("cfg")
    k = random.randrange(1 << 30)
    cfg = os.path.join(d, "sync_%d.cfg" % k)
    module, extra_files, extra = "MC_Sync", (), list(EXTRA)
    if scripts:
        # a generated module carries the scripts of event kinds (a configuration file cannot hold tuples)
        sd = os.path.join(d, "scr%d" % k)
        os.makedirs(sd)
        module = "MC_SyncScripted"
        mp = os.path.join(sd, module + ".tla")
        with open(mp, "w") as f:
            f.write("---- MODULE %s ----\nEXTENDS MC_Sync\nScriptsV == {%s}\n====\n" % (module, ", ".join("<<%s>>" % ", ".join('"%s"' % x for x in sc) for sc in scripts)))
        extra_files, extra = (mp,), extra + ["CONSTANT Scripts <- ScriptsV"]
    c.write_cfg(cfg, "MSySpec", consts, invariants, properties, view=view, extra=extra, constraint=constraint)
    return c.run_tlc(module, cfg, timeout=timeout, out_file=emit_file, simulate=simulate, depth=depth, seed=seed, workers=1 if simulate else workers, extra_files=extra_files)


def random_scripts(rng, count, length, extra_kinds=()):
    """Sequences of environment event KINDS, uniformly over kinds rather than over concrete behaviours."""
    kinds, weights = ["connect", "reply", "announce", "close"] + list(extra_kinds), [0.2, 0.27, 0.35, 0.18] + [0.15] * len(extra_kinds)
    out = set()
    while len(out) < count:
        sc = ["connect"]
        while len(sc) < length:
            sc.append(rng.choices(kinds, weights)[0])
        if sc.count("connect") <= 3 and "announce" in sc:
            out.add(tuple(sc))
    return sorted(out)


def generate(tag, consts, sample=None, rng=None, simulate=None, depth=None, seed=None, constraint="ChoiceConstraint", scripts=None):
    d = c.sub("gen")
    raw = os.path.join(d, tag + ".out")
    r = tlc(consts, ["EmitInv"], view=None, emit_file=raw, simulate=simulate, depth=depth, seed=seed, constraint=constraint, scripts=scripts)
    if not r.ok and not simulate:
        raise c.Infra("sync generation %s failed: %s" % (tag, r.out[-1500:]))
    out = os.path.join(d, tag + ".jsonl")
    n = c.unquote_lines(raw, out)
    os.unlink(raw)
    if sample and n > sample:
        rng = rng or random.Random(0)
        # half of the sample is uniform; the other half favours eventful behaviours (several peers involved, announcements by
        # both routes, a peer going away in the middle, restarts, requests served) - the enumeration is dominated by dull ones
        def score(line):
            sc = 0
            for pat, w in (('"op":"announce"', 2), ('"op":"close"', 2), ('"how":"inv"', 1), ('"how":"headers"', 1), ('"op":"restart"', 2),
                           ('"raw":true', 2), ('"op":"ask"', 1), ('"t":"closed"', 2), ('"banned":true', 40)):
                sc += w * min(line.count(pat), 2)
            if '"p":1' in line and '"p":2' in line:
                sc += 2
            return sc
        uni = set(rng.sample(range(n), sample // 2))
        scored = []
        with open(out) as fi:
            for i, line in enumerate(fi):
                if i not in uni:
                    scored.append((score(line) + rng.random(), i))
        scored.sort(reverse=True)
        keep = uni | {i for _, i in scored[:sample - len(uni)]}
        with open(out) as fi, open(out + ".s", "w") as fo:
            for i, line in enumerate(fi):
                if i in keep:
                    fo.write(line)
        os.replace(out + ".s", out)
        n = sample
    c.log("  gen %s: %d behaviours (tlc %.1fs, %d states)" % (tag, n, r.wall, r.distinct))
    return out, n, r


def exp_consts(H, F=0, ForkAt=0, CpHs=(2,), Cap=2, Forbid=(), Findings=(), MaxEnv=6, Emit="none", Scenario="x", MaxRaw=0, F2=0, ForkAt2=0):
    d = dict(BASE)
    d.update({"Cap": Cap, "Forbid": c.tla_set(Forbid), "Findings": c.tla_set(Findings), "H": H, "F": F, "ForkAt": ForkAt,
              "CpHs": c.tla_set(CpHs), "MaxEnv": MaxEnv, "MaxRaw": MaxRaw, "F2": F2, "ForkAt2": ForkAt2, "Emit": '"%s"' % Emit, "Scenario": '"%s"' % Scenario})
    return d


def tlc_exp(consts, invariants, view="XView", emit_file=None, timeout=1800, workers=None):
    d = c.sub("cfg")
    cfg = os.path.join(d, "syncexp_%d.cfg" % random.randrange(1 << 30))
    c.write_cfg(cfg, "MXSpec", consts, invariants, (), view=view, extra=EXTRA)
    return c.run_tlc("MC_SyncExp", cfg, timeout=timeout, out_file=emit_file, workers=workers)


def generate_exp(tag, consts, sample=None, rng=None):
    d = c.sub("gen")
    raw = os.path.join(d, tag + ".out")
    r = tlc_exp(consts, ["EmitInv"], view=None, emit_file=raw)
    if not r.ok:
        raise c.Infra("syncexp generation %s failed: %s" % (tag, r.out[-1500:]))
    out = os.path.join(d, tag + ".jsonl")
    n = c.unquote_lines(raw, out)
    os.unlink(raw)
    if sample and n > sample:
        rng = rng or random.Random(0)
        keep = set(rng.sample(range(n), sample))
        with open(out) as fi, open(out + ".s", "w") as fo:
            for i, line in enumerate(fi):
                if i in keep:
                    fo.write(line)
        os.replace(out + ".s", out)
        n = sample
    c.log("  gen %s: %d behaviours (tlc %.1fs, %d states)" % (tag, n, r.wall, r.distinct))
    return out, n, r
