"""Shared plumbing of the /verif check driver: scratch dirs, overlay builds of the Go harnesses into the
repository under test, TLC runs, evidence files, known findings.  Standard library only."""
import random
import atexit, json, os, re, shutil, subprocess, sys, tempfile, time, glob, hashlib

VERIF = os.path.dirname(os.path.dirname(os.path.abspath(__file__)))
REPO = os.environ.get("VERIF_REPO", "/repo")
SPEC = os.path.join(VERIF, "spec")
HARNESS = os.path.join(VERIF, "harness")
TLA_CP = "/opt/veriftools/tla/tla2tools.jar:/opt/veriftools/tla/CommunityModules-deps.jar"
NCPU = os.cpu_count() or 4

EXIT_OK, EXIT_VIOLATION, EXIT_INFRA = 0, 1, 2


class Infra(Exception):
    """Infrastructure failure (build, TLC crash, timeout ...): exit 2, never a verdict."""


_scratch = None


def scratch():
    global _scratch
    if _scratch is None:
        base = "/dev/shm" if os.path.isdir("/dev/shm") and os.access("/dev/shm", os.W_OK) else None
        _scratch = tempfile.mkdtemp(prefix="verif-", dir=base)
        atexit.register(lambda: shutil.rmtree(_scratch, ignore_errors=True))
    return _scratch


def sub(name):
    d = os.path.join(scratch(), name)
    os.makedirs(d, exist_ok=True)
    return d


def go_env():
    env = dict(os.environ)
    env["GOFLAGS"] = "-mod=mod"
    env["GOPROXY"] = "off"
    env.pop("GOSUMDB", None)
    env.pop("GOTOOLCHAIN", None)   # default auto: switches to the cached go1.24.0 the repo asks for
    env["VERIF_REPO"] = REPO
    return env


# ---------------------------------------------------------------------------------------------------
# Go harness builds through a build overlay: harness sources live in /verif only.

def _overlay_for(virtual_pkgs, inpkg):
    """virtual_pkgs: {harness subdir: module-relative virtual dir}; inpkg: {harness subdir: existing pkg dir}."""
    repl = {}
    for src, rel in list(virtual_pkgs.items()) + list(inpkg.items()):
        sdir = os.path.join(HARNESS, src)
        for f in sorted(os.listdir(sdir)):
            if f.endswith(".go"):
                repl[os.path.join(REPO, rel, f)] = os.path.join(sdir, f)
    return repl


def build_harness(name, pkg_rel, virtual_pkgs=None, inpkg=None, race=False, tags="verif"):
    """Compile the test binary of module-relative package pkg_rel with the overlay; returns the binary path."""
    virtual_pkgs = virtual_pkgs or {}
    inpkg = inpkg or {}
    ov = {"Replace": _overlay_for(virtual_pkgs, inpkg)}
    d = sub("build")
    ovf = os.path.join(d, name + ".overlay.json")
    with open(ovf, "w") as f:
        json.dump(ov, f)
    out = os.path.join(d, name + (".race" if race else "") + ".test")
    cmd = ["go", "test", "-overlay", ovf, "-vet=off", "-c", "-tags", tags, "-o", out]
    if race:
        cmd.append("-race")
    cmd.append("./" + pkg_rel + "/")
    t0 = time.time()
    p = subprocess.run(cmd, cwd=REPO, env=go_env(), capture_output=True, text=True)
    if p.returncode != 0 or not os.path.exists(out):
        raise Infra("harness build failed (%s):\n%s\n%s" % (" ".join(cmd), p.stdout[-4000:], p.stderr[-4000:]))
    return out


_CHILDREN = []


def die_with_parent():
    """preexec_fn: the child gets SIGKILL when the check process dies, however it dies (an orphaned harness process keeps
    its listening ports and its scratch database)."""
    try:
        import ctypes, signal
        ctypes.CDLL("libc.so.6", use_errno=True).prctl(1, signal.SIGKILL)   # PR_SET_PDEATHSIG
    except Exception:
        pass


def _kill_children():
    for p in _CHILDREN:
        try:
            if p.poll() is None:
                p.kill()
        except Exception:
            pass


atexit.register(_kill_children)


class FileProc:
    """A harness process whose stdout / stderr go to FILES: several such processes are started together and waited for one
    after the other, and a process that prints a lot (the code under test prints with fmt.Println in places) must not block
    on a pipe nobody is reading yet - to the harness's watchdogs that looked like a decoder that hangs."""
    def __init__(self, args, env, cwd):
        tag = "%d_%d" % (os.getpid(), random.randrange(1 << 30))
        self._so, self._se = os.path.join(cwd, "stdout_%s.txt" % tag), os.path.join(cwd, "stderr_%s.txt" % tag)
        # stdout is not kept at all: a frame announcing 4 GB makes wire.discardInput print 400 000 lines
        self._fo, self._fe = open(os.devnull, "w"), open(self._se, "w")
        self.p = subprocess.Popen(args, env=env, cwd=cwd, stdout=self._fo, stderr=self._fe, text=True, preexec_fn=die_with_parent)
        _CHILDREN.append(self.p)   # no harness process outlives the check (an orphan keeps its listening ports)

    def _tail(self, path, n=200000):
        try:
            with open(path, "rb") as f:
                f.seek(0, 2)
                size = f.tell()
                f.seek(max(0, size - n))
                return f.read().decode("utf-8", "replace")
        except OSError:
            return ""

    def communicate(self, timeout=None):
        try:
            self.p.wait(timeout=timeout)
        finally:
            self._fo.close()
            self._fe.close()
        so, se = self._tail(self._so), self._tail(self._se)
        for f in (self._so, self._se):
            try:
                os.unlink(f)
            except OSError:
                pass
        return so, se

    def kill(self):
        self.p.kill()

    @property
    def returncode(self):
        return self.p.returncode


def panic_in_harness(stderr):
    """Whose code panicked?  The first source frame below the runtime's panic(...) line of a Go panic dump: a frame in
    the harness (verif_*_test.go overlays, internal/verifh) means the HARNESS crashed - exit 2, never a verdict."""
    i = stderr.find("\npanic(")
    if i < 0:
        i = stderr.find("panic:")
    frames = re.findall(r"\n\t(/\S+\.go):\d+", stderr[i:] if i >= 0 else stderr)
    for f in frames:
        if "/src/runtime/" in f or "/src/testing/" in f:
            continue
        return "verif_" in os.path.basename(f) or "/verifh/" in f
    return False


def run_harness(binary, env_extra, timeout=3600, cwd=None):
    env = go_env()
    env.update({k: str(v) for k, v in env_extra.items()})
    p = subprocess.run([binary, "-test.run", "^TestHarness$", "-test.timeout", "0"], env=env, cwd=cwd or sub("run"),
                       stdout=subprocess.DEVNULL, stderr=subprocess.PIPE, text=True, timeout=timeout, preexec_fn=die_with_parent)
    p.stdout = ""   # not kept (the code under test prints freely); diagnostics come on stderr
    return p


# ---------------------------------------------------------------------------------------------------
# TLC

_STAT = re.compile(r"(\d+) states generated,? (\d+) distinct states found")


class TlcResult:
    def __init__(self, rc, out, wall):
        self.rc, self.out, self.wall = rc, out, wall
        m = _STAT.findall(out.replace(",", ""))
        self.generated = int(m[-1][0]) if m else 0
        self.distinct = int(m[-1][1]) if m else 0
        self.ok = rc == 0 and ("No error has been found" in out or "Finished in" in out and "Error:" not in out)
        self.violation = "is violated" in out or "Invariant" in out and "violated" in out or "Temporal properties were violated" in out

    def printed(self):
        """Lines printed by PrintT(ToJson(..)): JSON strings, one per line."""
        for line in self.out.splitlines():
            if line.startswith('"') and line.endswith('"'):
                yield line


def write_cfg(path, spec, constants, invariants=(), properties=(), view=None, constraint=None, extra=()):
    with open(path, "w") as f:
        f.write("SPECIFICATION %s\n" % spec)
        if constants:
            f.write("CONSTANTS\n")
            for k, v in constants.items():
                f.write("  %s = %s\n" % (k, v))
        if view:
            f.write("VIEW %s\n" % view)
        if constraint:
            f.write("CONSTRAINT %s\n" % constraint)
        if invariants:
            f.write("INVARIANTS\n  %s\n" % "\n  ".join(invariants))
        if properties:
            f.write("PROPERTIES\n  %s\n" % "\n  ".join(properties))
        for e in extra:
            f.write(e + "\n")
        f.write("CHECK_DEADLOCK FALSE\n")


def tla_set(xs):
    def one(x):
        if isinstance(x, bool):
            return "TRUE" if x else "FALSE"
        if isinstance(x, str):
            return '"%s"' % x
        return str(x)
    return "{" + ", ".join(one(x) for x in xs) + "}"


def run_tlc(module, cfg_path, workers=None, timeout=1800, simulate=None, depth=None, seed=None, coverage=False,
            out_file=None, extra_files=(), deque=False):
    """Run TLC on spec/<module>.tla in a scratch copy of the spec directory."""
    d = tempfile.mkdtemp(prefix="tlc-", dir=scratch())
    for f in glob.glob(os.path.join(SPEC, "*.tla")):
        shutil.copy(f, d)
    for f in extra_files:
        shutil.copy(f, d)
    shutil.copy(cfg_path, os.path.join(d, "run.cfg"))
    cmd = ["java", "-Xss1g", "-XX:+UseParallelGC", "-Xmx8g", "-Djava.io.tmpdir=" + d]
    if deque:
        cmd.append("-Dtlc2.tool.queue.IStateQueue=StateDeque")
    cmd += ["-cp", TLA_CP, "tlc2.TLC", "-metadir", os.path.join(d, "meta"), "-config", "run.cfg",
            "-workers", str(workers or min(NCPU, 8))]
    if simulate:
        cmd += ["-simulate", simulate]
        if depth:
            cmd += ["-depth", str(depth)]
    if seed is not None:
        cmd += ["-seed", str(seed)]
    if coverage:
        cmd += ["-coverage", "1"]
    cmd.append(module + ".tla")
    t0 = time.time()
    try:
        if out_file:
            with open(out_file, "w") as fo:
                p = subprocess.run(cmd, cwd=d, stdout=fo, stderr=subprocess.STDOUT, timeout=timeout, preexec_fn=die_with_parent)
            with open(out_file) as fi:
                # only the non-JSON lines are kept in memory
                out = "".join(l for l in fi if not l.startswith('"'))
        else:
            p = subprocess.run(cmd, cwd=d, capture_output=True, text=True, timeout=timeout, preexec_fn=die_with_parent)
            out = p.stdout + p.stderr
    except subprocess.TimeoutExpired:
        shutil.rmtree(d, ignore_errors=True)
        raise Infra("TLC timed out after %ds on %s" % (timeout, module))
    res = TlcResult(p.returncode, out, time.time() - t0)
    res.dir = d
    return res


def tlc_must_pass(res, what):
    if not res.ok:
        if res.violation:
            raise SpecViolation(what, res.out)
        raise Infra("TLC failed on %s (rc=%d):\n%s" % (what, res.rc, res.out[-3000:]))
    return res


class SpecViolation(Exception):
    """TLC found a counter-example on a specification: a lead, never a verdict about the code."""
    def __init__(self, what, out):
        super().__init__(what)
        self.what, self.out = what, out


def unquote_lines(src_file, dst_file, limit=None):
    """TLC prints ToJson values as quoted TLA+ strings; decode them into plain JSON lines."""
    n = 0
    with open(src_file) as fi, open(dst_file, "w") as fo:
        for line in fi:
            if line.startswith('"'):
                line = line.rstrip("\n")
                try:
                    s = json.loads(line)
                except Exception:
                    continue
                fo.write(s + "\n")
                n += 1
                if limit and n >= limit:
                    break
    return n


def shard_file(path, k):
    """Split a line file round-robin into k shards; returns list of (path, count)."""
    outs = [open("%s.%02d" % (path, i), "w") for i in range(k)]
    counts = [0] * k
    with open(path) as f:
        for i, line in enumerate(f):
            outs[i % k].write(line)
            counts[i % k] += 1
    for o in outs:
        o.close()
    return [("%s.%02d" % (path, i), counts[i]) for i in range(k) if counts[i]]


# ---------------------------------------------------------------------------------------------------
# known findings, evidence, verdicts

def known_findings():
    out = []
    p = os.path.join(VERIF, "known_findings.jsonl")
    if os.path.exists(p):
        for line in open(p):
            line = line.strip()
            if line and not line.startswith("#"):
                out.append(json.loads(line))
    return out


def findings_for(prop):
    return [f for f in known_findings() if f.get("property") == prop and f.get("status") == "finding"]


def deviations_for(prop=None):
    return sorted({f["deviation"] for f in known_findings()
                   if f.get("status") == "finding" and f.get("deviation") and (prop is None or f.get("property") == prop)})


def write_evidence(prop, tier, seed, level, coverage, wall, assumptions, violations=0):
    os.makedirs(os.path.join(VERIF, "evidence"), exist_ok=True)
    ev = {"property_id": prop, "tier": tier, "seed": int(seed), "level": level, "coverage": coverage,
          "assumptions": assumptions, "wall_s": round(wall, 2), "violations": violations}
    with open(os.path.join(VERIF, "evidence", prop + ".json"), "w") as f:
        json.dump(ev, f, indent=1, sort_keys=True, default=str)


def write_replay(prop, payload):
    d = os.path.join(VERIF, "replay")
    os.makedirs(d, exist_ok=True)
    h = hashlib.sha1(json.dumps(payload, sort_keys=True, default=str).encode()).hexdigest()[:10]
    p = os.path.join(d, "%s-%s.json" % (prop, h))
    with open(p, "w") as f:
        json.dump(payload, f, indent=1, default=str)
    return p


def log(*a):
    print(*a, file=sys.stderr, flush=True)
