"""All harness builds (used by --setup)."""
import fam_chain
import checks_misc
BUILDS = {"chain": fam_chain.build, "p2prig": checks_misc.build_rig}
