"""All harness builds (used by --setup)."""
import fam_chain
BUILDS = {"chain": fam_chain.build}
