"""All harness builds (used by --setup)."""
import fam_chain
import checks_misc
BUILDS = {"chain": fam_chain.build, "p2prig": checks_misc.build_rig, "p2prig-race": lambda: checks_misc.build_rig(race=True),
          "chain-race": lambda: fam_chain.c.build_harness(race=True, **fam_chain.HARNESS)}
