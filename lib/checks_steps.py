"""C05 (crash / storage failure during ingestion), C15 (concurrency), C11 (notification)."""
import json, os, random
import common as c
import fam_chain as fc
import fam_steps as fs
from checks_chain import verdict_from, merge, replay_file, ASSUME

ALL_KINDS = fc.C01_KINDS | fc.C03_KINDS

INV_C05 = ["LValid", "NeverTwoLongestAtOneHeight", "AckedNeverLost", "RedeliveryRecovers", "NotStuck"]
PROP_C05 = ["ImmutableS", "RestartChangesNothing"]


def c05(tier, seed, replay_path=None):
    binary = fc.build()
    if replay_path:
        return verdict_from(replay_file(binary, replay_path, seed, ALL_KINDS, "C05"), ALL_KINDS, "C05", tier, [])
    rng = random.Random(seed)
    D = c.deviations_for("C01")
    runs = []
    # design: every kill point / failing write x every history within the bound, then restart + redelivery
    n = 4 if tier == "quick" else 5
    runs.append(fs.tlc_props(fs.steps_consts(n, MaxKills=1, MaxErrs=1, MaxFuture=0), INV_C05, PROP_C05, coverage=(tier == "thorough")))
    if tier == "thorough":
        runs.append(fs.tlc_props(fs.steps_consts(4, MaxKills=2, MaxErrs=1, MaxFuture=1), INV_C05, PROP_C05))
    gens = []
    if tier == "quick":
        gens.append(("k", fs.steps_consts(4, MaxKills=1, MaxErrs=0, MaxFuture=0, Deviations=D, Emit="paths"), None))
        gens.append(("e", fs.steps_consts(4, MaxKills=0, MaxErrs=1, MaxFuture=0, Deviations=D, Emit="paths"), None))
        gens.append(("o", fs.steps_consts(3, MaxKills=1, MaxErrs=1, MaxFuture=1, Works=(0, 1, 2), Deviations=D, Emit="paths"), 8000))
    else:
        gens.append(("k", fs.steps_consts(5, MaxKills=1, MaxErrs=0, MaxFuture=0, Deviations=D, Emit="paths", MaxOps=30), 120000))
        gens.append(("e", fs.steps_consts(5, MaxKills=0, MaxErrs=1, MaxFuture=0, Deviations=D, Emit="paths", MaxOps=30), 120000))
        gens.append(("o", fs.steps_consts(4, MaxKills=1, MaxErrs=1, MaxFuture=1, Works=(0, 1, 2), Deviations=D, Emit="paths", MaxOps=30), 120000))
        gens.append(("kk", fs.steps_consts(4, MaxKills=2, MaxErrs=0, MaxFuture=0, Deviations=D, Emit="paths", MaxOps=40), 80000))
    aggs, gen_counts = [], {}
    for tag, consts, sample in gens:
        path, n_, res = fs.generate("C05" + tag, consts, sample=sample, rng=rng)
        runs.append(res)
        gen_counts[tag] = {"behaviours": n_, "constants": consts, "sampled": bool(sample and n_ == sample)}
        aggs.append(fc.replay(binary, path, seed))
    agg = merge(aggs)
    st = agg["stats"]
    if st.get("fault:kill", 0) == 0 or st.get("fault:err", 0) == 0 or st.get("reorg-steps", 0) == 0 or st.get("res:restart", 0) == 0:
        raise c.Infra("vacuous run: %s" % dict(st))
    v = verdict_from(agg, ALL_KINDS, "C05", tier, runs, {"generation": gen_counts,
                                                        "exhaustive": all(not g["sampled"] for g in gen_counts.values())})
    v["level"] = "fault_enumeration"
    cov = v["coverage"]
    cov["evaluations"] = agg["behaviours"]
    cov["distinct_nontrivial"] = st.get("fault:kill", 0) + st.get("fault:err", 0)
    cov["rule"] = ("every history of <=N headers x every write boundary of every Add as kill point (kill@k) or failing write (err@k), "
                   "then restart (database.Init on the same file) and full redelivery, enumerated by TLC from spec/ChainSteps.tla; "
                   "non-trivial = behaviours in which a fault was actually injected (counted by the replayer)")
    v["assumptions"] = ASSUME + ["kill points are transaction boundaries (before each repository write); torn pages are SQLite's responsibility",
                                 "after a kill or a failed write the process restarts and peers redeliver everything in the original order (the property's protocol)"]
    return v


CHECKS = {"C05": c05}


# ---------------------------------------------------------------------------------------------------
# C11: exactly one ADD event per stored header on every channel

def c11(tier, seed, replay_path=None):
    binary = fc.build()
    kinds = {"events"}
    env = {"VERIF_NOTIFY": "1"}
    if replay_path:
        payload = json.load(open(replay_path))
        d = c.sub("replay")
        p = os.path.join(d, "one.jsonl")
        open(p, "w").write(json.dumps(payload["case"]["behaviour"]) + "\n")
        return verdict_from(fc.replay(binary, p, payload.get("seed", seed), nproc=1, level=0, extra_env=env), kinds, "C11", tier, [])
    rng = random.Random(seed)
    D = c.deviations_for("C01")
    runs = []
    # design: the fan-out model, every interleaving of the per-channel deliveries, one blocked + one failing channel
    d = c.sub("cfg")
    cfg = os.path.join(d, "notify.cfg")
    c.write_cfg(cfg, "NSpec", {"Channels": c.tla_set(["plain", "ws", "hook"] + (["slow"] if tier == "thorough" else [])),
                               "MaxSub": 3}, ["NoEventWithoutStore", "AtMostOnce", "ExactlyOncePerChannel", "IngestionNeverWaits", "ChannelsIndependent"],
                ["EventuallyDelivered"], extra=["CONSTANT Mode <- ModeV"])
    r = c.tlc_must_pass(c.run_tlc("MC_Notify", cfg, workers=c.NCPU, timeout=1800), "MC_Notify")
    c.log("  tlc notify: %d distinct states %.1fs" % (r.distinct, r.wall))
    runs.append(r)
    # conformance: C01-generator histories (duplicates, forbidden, orphans, reorgs, restarts) and injected store failures
    ns = (1500, 1000) if tier == "quick" else (12000, 8000)
    gens = [("h", lambda: fc.generate("C11h", fc.chain_consts(3 if tier == "quick" else 4, 5, MaxFuture=1, MaxForb=1, MaxResub=1, MaxRestart=1, Deviations=D, Emit="paths"), sample=ns[0], rng=rng)),
            ("f", lambda: fs.generate("C11f", fs.steps_consts(4, MaxKills=0, MaxErrs=1, MaxFuture=0, Deviations=D, Emit="paths"), sample=ns[1], rng=rng))]
    aggs, gen_counts = [], {}
    for tag, g in gens:
        path, n, res = g()
        runs.append(res)
        gen_counts[tag] = {"behaviours": n}
        aggs.append(fc.replay(binary, path, seed, level=0, extra_env=env))
    agg = merge(aggs)
    st = agg["stats"]
    if st.get("events-expected", 0) == 0 or st.get("res:duplicate", 0) == 0 or st.get("res:forbidden", 0) == 0 or st.get("fault:err", 0) == 0:
        raise c.Infra("vacuous run: %s" % dict(st))
    v = verdict_from(agg, kinds, "C11", tier, runs, {"generation": gen_counts, "events_expected_and_compared_per_channel": st.get("events-expected", 0),
                                                    "channels": ["plain recorder", "slow | blocking-for-ever | ok recorder", "real websocket channel over a recording (sometimes failing) publisher",
                                                                 "real WebhooksService over the SQL repository with a recording client (200 | transport error | 500)", "plain recorder registered last"]})
    v["assumptions"] = ASSUME + ["deliveries are awaited with a 2 s deadline per step; a later duplicate delivery is caught at the end of the behaviour (2 ms grace)",
                                 "the websocket channel is bound through a recording WebsocketPublisher (the centrifuge node itself is not part of this check)"]
    return v


CHECKS["C11"] = c11
