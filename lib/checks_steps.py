"""C05 (crash / storage failure during ingestion), C15 (concurrency), C11 (notification)."""
import json, os, random
import common as c
import fam_chain as fc
import fam_steps as fs
from checks_chain import verdict_from, merge, replay_file, ASSUME

ALL_KINDS = fc.C01_KINDS | fc.C03_KINDS

INV_C05 = ["LValid", "EmptyOnlyWhileDown", "NeverTwoLongestAtOneHeight", "AckedNeverLost", "RedeliveryRecovers", "NotStuck"]
PROP_C05 = ["ImmutableS", "RestartChangesNothing"]


def long_reorg(binary, tier, seed, prop):
    """A reorganisation relabelling > 500 rows per side: row-level failure == whole-write failure (atomic writes at scale)."""
    d = c.sub("longreorg")
    out = os.path.join(d, "res.json")
    n = 520 if tier == "quick" else 1300
    p = c.run_harness(binary, {"VERIF_OP": "longreorg", "VERIF_OUT": out, "VERIF_DB": os.path.join(d, "base.db"), "VERIF_SEED": seed, "VERIF_LEN": n, "TMPDIR": d}, cwd=d)
    if p.returncode != 0 or not os.path.exists(out):
        raise c.Infra("longreorg harness failed: %s %s" % (p.stdout[-800:], p.stderr[-1500:]))
    res = json.load(open(out))
    viol = []
    if res.get("mismatch"):
        viol.append(("deep reorganisation: " + res["mismatch"], {"family": "longreorg", "length": n, "seed": seed}))
    return res, viol


def startup_run(binary, tier, seed, only=None, kinds=("startup",)):
    """Startup.tla: database.Init over every database an older release (or a killed start) may have left behind."""
    import glob
    last = len(glob.glob(os.path.join(c.REPO, "database", "migrations", "*.up.sql")))
    d = c.sub("startup")
    runs = []
    path = os.path.join(d, "startup.jsonl")
    if only is None:
        consts = {"LastVer": last, "MaxKills": 2, "MaxStops": 1, "HdrIds": "{1, 2}"}
        cfg = os.path.join(d, "props.cfg")
        c.write_cfg(cfg, "Spec", consts, ["TypeOK", "AppliedFollowsVersion", "UpMeansReady", "Representable"], ["ContentConstant", "ComesUpOrDirty", "DirtyIsForGood"])
        r = c.run_tlc("Startup", cfg, workers=4)
        c.tlc_must_pass(r, "Startup")
        runs.append(r)
        cfg = os.path.join(d, "gen.cfg")
        gc = dict(consts, Emit='"paths"')
        raw = os.path.join(d, "startup.out")
        # no VIEW: hist is part of the state, so every path to a terminal state is emitted
        c.write_cfg(cfg, "MSpec", gc, ["EmitInv"])
        r = c.run_tlc("MC_Startup", cfg, workers=1, out_file=raw)
        c.tlc_must_pass(r, "MC_Startup")
        runs.append(r)
        allp = os.path.join(d, "all.jsonl")
        n = c.unquote_lines(raw, allp)
        lines = sorted(set(open(allp).read().splitlines()))
        rng = random.Random(seed)
        want = 1500 if tier == "quick" else len(lines)
        if len(lines) > want:
            lines = rng.sample(lines, want)
        with open(path, "w") as f:
            f.write("\n".join(lines) + "\n")
        c.log("  gen startup: %d behaviours (of %d emitted), tlc %d states" % (len(lines), n, r.distinct))
    else:
        with open(path, "w") as f:
            f.write(json.dumps(only) + "\n")
        lines = [json.dumps(only)]
    out = os.path.join(d, "startup.res")
    dbd = c.sub("startupdb")
    p = c.run_harness(binary, {"VERIF_OP": "startup", "VERIF_IN": path, "VERIF_OUT": out, "VERIF_DB": os.path.join(dbd, "x.db"), "VERIF_LAST": last}, cwd=dbd)
    if p.returncode != 0 or not os.path.exists(out):
        raise c.Infra("startup harness failed: %s %s" % (p.stdout[-1500:], p.stderr[-1500:]))
    res = json.load(open(out))
    st = res.get("stats") or {}
    if only is None and (st.get("start:started", 0) == 0 or st.get("start:refused", 0) == 0 or st.get("start:killed", 0) == 0):
        raise c.Infra("vacuous startup run: %s" % st)
    viol, seen = [], set()
    other = sorted(set(m["kind"] for m in res.get("mismatches") or [] if m["kind"] not in kinds))
    for m in res.get("mismatches") or []:
        if m["beh"] in seen or m["kind"] not in kinds:
            continue
        seen.add(m["beh"])
        viol.append(("start-up at step %d: expected %s, got %s" % (m["step"], m["exp"], m["got"]), {"family": "startup", "behaviour": json.loads(lines[m["beh"]])}))
    c.log("  replay startup: %d behaviours %d starts, %d mismatches, %.1fs" % (res["behaviours"], res["steps"], len(res.get("mismatches") or []), res.get("wall_s", 0)))
    cov = {"behaviours": res["behaviours"], "starts": res["steps"], "stats": st, "schema_versions": last, "other_kinds_differing": other,
           "rule": "every clean database of schema version 0..%d holding headers / tokens / a webhook written under that schema x up to 2 killed starts at every "
                   "point of the migrate-then-seed sequence (incl. the dirty states golang-migrate leaves) x a completed or refused start, enumerated by TLC from "
                   "spec/Startup.tla; the file is prepared with the working tree's own migration files and the real database.Init is run on it" % last}
    return runs, viol, cov


def wsrecover_run(binary, tier, seed, only=None):
    """WsRecovery.tla: a websocket subscriber that goes away and comes back (history / recovery of the headers channel)."""
    d = c.sub("wsrecover")
    runs = []
    hmax = 2
    path = os.path.join(d, "wsrecover.jsonl")
    if only is None:
        consts = {"HistoryMax": hmax, "MaxPub": 6 if tier == "quick" else 8, "MaxAway": 2, "Emit": '"none"'}
        cfg = os.path.join(d, "props.cfg")
        c.write_cfg(cfg, "MWSpec", consts, ["NoDuplicates", "InOrder", "ExactlyOnceOrTold", "NeverSilentGap"])
        runs.append(c.tlc_must_pass(c.run_tlc("MC_WsRecovery", cfg, workers=4), "MC_WsRecovery"))
        gcfg = os.path.join(d, "gen.cfg")
        c.write_cfg(gcfg, "MWSpec", dict(consts, Emit='"paths"'), ["EmitInv"])
        raw = os.path.join(d, "ws.out")
        r = c.tlc_must_pass(c.run_tlc("MC_WsRecovery", gcfg, workers=1, out_file=raw), "MC_WsRecovery")
        runs.append(r)
        allp = os.path.join(d, "all.jsonl")
        c.unquote_lines(raw, allp)
        lines = sorted(set(open(allp).read().splitlines()))
        rng = random.Random(seed)
        want = 160 if tier == "quick" else 1500
        if len(lines) > want:
            lines = rng.sample(lines, want)
        with open(path, "w") as f:
            f.write("\n".join(lines) + "\n")
        c.log("  gen wsrecover: %d behaviours" % len(lines))
    else:
        with open(path, "w") as f:
            f.write(json.dumps(only) + "\n")
    agg = fc.replay(binary, path, seed, op="wsrecover", nproc=1 if only else 8, extra_env={"VERIF_HISTORY_MAX": hmax})
    st = agg["stats"]
    if only is None and not agg["mismatches"] and (st.get("back:recovered=true", 0) == 0 or st.get("back:recovered=false", 0) == 0):
        raise c.Infra("vacuous wsrecover run: %s" % dict(st))
    return runs, agg


def c05(tier, seed, replay_path=None):
    binary = fc.build()
    if replay_path and json.load(open(replay_path))["case"].get("family") == "startup":
        runs, viol, cov = startup_run(binary, tier, seed, only=json.load(open(replay_path))["case"]["behaviour"])
        return {"violations": viol, "known": [], "notes": [], "level": "fault_enumeration", "coverage": {"states": 1, "transitions": 1, "traces_validated_against_impl": 1, "samples": ["startup"]}, "assumptions": []}
    if replay_path and json.load(open(replay_path))["case"].get("family") == "longreorg":
        res, viol = long_reorg(binary, tier, json.load(open(replay_path)).get("seed", seed), "C05")
        return {"violations": viol, "known": [], "notes": [], "level": "fault_enumeration", "coverage": {"states": 1, "transitions": 1, "traces_validated_against_impl": 1, "samples": ["long reorg"]}, "assumptions": []}
    if replay_path:
        return verdict_from(replay_file(binary, replay_path, seed, ALL_KINDS, "C05"), ALL_KINDS, "C05", tier, [])
    rng = random.Random(seed)
    D = c.deviations_for("C01")
    runs = []
    # design: every kill point / failing write x every history within the bound, then restart + redelivery
    n = 4 if tier == "quick" else 5
    runs.append(fs.tlc_props(fs.steps_consts(n, MaxKills=1, MaxErrs=1, MaxFuture=0), INV_C05, PROP_C05, coverage=(tier == "thorough")))
    if tier == "thorough":
        runs.append(fs.tlc_props(fs.steps_consts(4, MaxKills=2, MaxErrs=1, MaxFuture=1), INV_C05, PROP_C05))
    gens = []
    if tier == "quick":
        gens.append(("k", fs.steps_consts(4, MaxKills=1, MaxErrs=0, MaxFuture=0, Deviations=D, Emit="paths"), None))
        gens.append(("e", fs.steps_consts(4, MaxKills=0, MaxErrs=1, MaxFuture=0, Deviations=D, Emit="paths"), None))
        gens.append(("o", fs.steps_consts(3, MaxKills=1, MaxErrs=1, MaxFuture=1, Works=(0, 1, 2), Deviations=D, Emit="paths"), 8000))
    else:
        gens.append(("k", fs.steps_consts(5, MaxKills=1, MaxErrs=0, MaxFuture=0, Deviations=D, Emit="paths", MaxOps=30), 120000))
        gens.append(("e", fs.steps_consts(5, MaxKills=0, MaxErrs=1, MaxFuture=0, Deviations=D, Emit="paths", MaxOps=30), 120000))
        gens.append(("o", fs.steps_consts(4, MaxKills=1, MaxErrs=1, MaxFuture=1, Works=(0, 1, 2), Deviations=D, Emit="paths", MaxOps=30), 120000))
        gens.append(("kk", fs.steps_consts(4, MaxKills=2, MaxErrs=0, MaxFuture=0, Deviations=D, Emit="paths", MaxOps=40), 80000))
    aggs, gen_counts = [], {}
    for tag, consts, sample in gens:
        path, n_, res = fs.generate("C05" + tag, consts, sample=sample, rng=rng)
        runs.append(res)
        gen_counts[tag] = {"behaviours": n_, "constants": consts, "sampled": bool(sample and n_ == sample)}
        aggs.append(fc.replay(binary, path, seed))
        # the same behaviours once more with ROW-level faults: the armed write is executed by the real repository while an
        # SQLite trigger fails one of its rows; a repository write is one atomic step of ChainSteps.tla, so nothing may differ
        a2 = fc.replay(binary, path, seed, extra_env={"VERIF_ROWFAULT": "1"})
        for m in a2["mismatches"]:
            m["rowfault"] = True
        aggs.append(a2)
    agg = merge(aggs)
    st = agg["stats"]
    if st.get("fault:kill", 0) == 0 or st.get("fault:err", 0) == 0 or st.get("reorg-steps", 0) == 0 or st.get("res:restart", 0) == 0:
        raise c.Infra("vacuous run: %s" % dict(st))
    v = verdict_from(agg, ALL_KINDS, "C05", tier, runs, {"generation": gen_counts,
                                                        "exhaustive": all(not g["sampled"] for g in gen_counts.values())})
    v["level"] = "fault_enumeration"
    cov = v["coverage"]
    cov["evaluations"] = agg["behaviours"]
    cov["distinct_nontrivial"] = st.get("fault:kill", 0) + st.get("fault:err", 0)
    cov["rule"] = ("every history of <=N headers x every write boundary of every Add as kill point (kill@k) or failing write (err@k), "
                   "then restart (database.Init on the same file) and full redelivery, enumerated by TLC from spec/ChainSteps.tla; "
                   "non-trivial = behaviours in which a fault was actually injected (counted by the replayer)")
    lr, lviol = long_reorg(binary, tier, seed, "C05")
    cov["long_reorg"] = {k: x for k, x in lr.items() if k != "mismatch"}
    v["violations"] += lviol
    # restart on ANY database a previous release or a killed start may have left (Startup.tla)
    sruns, sviol, scov = startup_run(binary, tier, seed)
    cov["startup"] = scov
    cov["states"] += sum(r.distinct for r in sruns)
    cov["transitions"] += sum(r.generated for r in sruns)
    cov["traces_validated_against_impl"] += scov["behaviours"]
    v["violations"] += sviol
    v["assumptions"] = ASSUME + ["kill points are transaction boundaries (before each repository write); torn pages are SQLite's responsibility",
                                 "after a kill or a failed write the process restarts and peers redeliver everything in the original order (the property's protocol)"]
    return v


CHECKS = {"C05": c05}


# ---------------------------------------------------------------------------------------------------
# C11: exactly one ADD event per stored header on every channel

def c11(tier, seed, replay_path=None):
    binary = fc.build()
    kinds = {"events", "ingestion-blocked", "sync-notify", "ws-recovery"}
    env = {"VERIF_NOTIFY": "1"}
    if replay_path and (json.load(open(replay_path))["case"].get("mismatch") or {}).get("kind") == "ws-recovery":
        _, wagg = wsrecover_run(binary, tier, seed, only=json.load(open(replay_path))["case"]["behaviour"])
        return verdict_from(wagg, kinds, "C11", tier, [])
    if replay_path:
        payload = json.load(open(replay_path))
        d = c.sub("replay")
        p = os.path.join(d, "one.jsonl")
        open(p, "w").write(json.dumps(payload["case"]["behaviour"]) + "\n")
        return verdict_from(fc.replay(binary, p, payload.get("seed", seed), nproc=1, level=0, extra_env=env), kinds, "C11", tier, [])
    rng = random.Random(seed)
    D = c.deviations_for("C01")
    runs = []
    # design: the fan-out model, every interleaving of the per-channel deliveries, one blocked + one failing channel
    d = c.sub("cfg")
    cfg = os.path.join(d, "notify.cfg")
    # quick: three channels, three submissions (109 k states, 11 s).  Thorough: that, and four channels (one slow) with two
    # submissions; four channels x three submissions, or three x four, did not finish within 25 / 5 minutes (measured)
    INV_N = ["NoEventWithoutStore", "AtMostOnce", "ExactlyOncePerChannel", "IngestionNeverWaits", "ChannelsIndependent"]
    for chans, ms in ([(["plain", "ws", "hook"], 3)] + ([(["plain", "ws", "hook", "slow"], 2)] if tier == "thorough" else [])):
        c.write_cfg(cfg, "NSpec", {"Channels": c.tla_set(chans), "MaxSub": ms}, INV_N, ["EventuallyDelivered"], extra=["CONSTANT Mode <- ModeV"])
        r = c.tlc_must_pass(c.run_tlc("MC_Notify", cfg, workers=c.NCPU, timeout=1800), "MC_Notify")
        c.log("  tlc notify %d channels x %d submissions: %d distinct states %.1fs" % (len(chans), ms, r.distinct, r.wall))
        runs.append(r)
    r = runs.pop()
    runs.append(r)
    # conformance: C01-generator histories (duplicates, forbidden, orphans, reorgs, restarts) and injected store failures
    ns = (1500, 1000) if tier == "quick" else (12000, 8000)
    gens = [("h", lambda: fc.generate("C11h", fc.chain_consts(3 if tier == "quick" else 4, 5, MaxFuture=1, MaxForb=1, MaxResub=1, MaxRestart=1, Deviations=D, Emit="paths"), sample=ns[0], rng=rng)),
            ("f", lambda: fs.generate("C11f", fs.steps_consts(4, MaxKills=0, MaxErrs=1, MaxFuture=0, Deviations=D, Emit="paths"), sample=ns[1], rng=rng))]
    # long histories (TLC simulation along driver-chosen shapes: a main chain with a few forks and orphans): queues,
    # per-channel workers and the like only show their limits after hundreds of events, one channel blocked all the while
    ln = 180 if tier == "quick" else 600
    def long_gen():
        shapes = []
        for i in range(3):
            sh = []
            for k in range(1, ln + 1):
                r = rng.random()
                sh.append(k - 1 if r < 0.93 else (rng.randrange(0, k) if r < 0.985 else ln + 1))
            shapes.append(sh)
        return fc.generate("C11long", fc.chain_consts(ln, ln, Works=(1, 2), MaxFuture=ln, MaxForb=0, Deviations=D, Emit="paths"),
                           simulate="num=3", depth=ln + 1, seed=seed, shapes=shapes, sample=3, rng=rng)
    gens.append(("long", long_gen))
    aggs, gen_counts = [], {}
    for tag, g in gens:
        path, n, res = g()
        runs.append(res)
        gen_counts[tag] = {"behaviours": n}
        # (the channel set-up varies with the behaviour's index in its process: the three long ones share one process)
        aggs.append(fc.replay(binary, path, seed, level=0, extra_env=env, nproc=1 if tag == "long" else None))
        if tag == "h":
            # a slice of the same histories with the REAL websocket server (centrifuge node) and a real subscribed client
            sub = os.path.join(os.path.dirname(path), "C11ws.jsonl")
            with open(path) as fi, open(sub, "w") as fo:
                for i, line in enumerate(fi):
                    if i % (6 if tier == "quick" else 3) == 0:
                        fo.write(line)
            aggs.append(fc.replay(binary, sub, seed, level=0, extra_env=dict(env, VERIF_WSREAL="1"), nproc=8))
    # the whole system: headers delivered by scripted P2P nodes to the real server end as exactly one ADD event each
    import checks_p2p
    sagg, sr_, sn = checks_p2p.notify_run(tier, seed)
    if sagg["crashed"]:
        raise c.Infra("sync rig failed: %s" % json.dumps(sagg["crashed"])[:1500])
    if sagg["stats"].get("notify-checked", 0) == 0:
        raise c.Infra("vacuous system-level notification run: %s" % dict(sagg["stats"]))
    sagg["mismatches"] = [m for m in sagg["mismatches"] if m["kind"] == "sync-notify"]
    runs.append(sr_)
    gen_counts["p2p"] = {"behaviours": sn, "compared": sagg["stats"].get("notify-checked", 0)}
    aggs.append(sagg)
    # a websocket subscriber that goes away and comes back: recovered from the channel's history, or told that it could not be
    wruns, wagg = wsrecover_run(binary, tier, seed)
    runs += wruns
    gen_counts["wsrecover"] = {"behaviours": wagg["behaviours"], "reconnections": wagg["stats"].get("ev:back", 0), "setup_skipped": wagg["stats"].get("setup-skipped", 0)}
    aggs.append(wagg)
    agg = merge(aggs)
    st = agg["stats"]
    if st.get("events-expected", 0) == 0 or st.get("res:duplicate", 0) == 0 or st.get("res:forbidden", 0) == 0 or st.get("fault:err", 0) == 0:
        raise c.Infra("vacuous run: %s" % dict(st))
    v = verdict_from(agg, kinds, "C11", tier, runs, {"generation": gen_counts, "events_expected_and_compared_per_channel": st.get("events-expected", 0),
                                                    "channels": ["plain recorder", "slow | blocking-for-ever | ok recorder", "real websocket channel over a recording (sometimes failing) publisher",
                                                                 "real WebhooksService over the SQL repository with a recording client (200 | transport error | 500)", "plain recorder registered last",
                                                                 "real websocket server (centrifuge node) with a real centrifuge client subscribed to `headers` (a slice of the histories)"]})
    v["assumptions"] = ASSUME + ["deliveries are awaited with a 2 s deadline per step; a later duplicate delivery is caught at the end of the behaviour (2 ms grace)",
                                 "the websocket channel is bound through a recording WebsocketPublisher for all histories and through the real centrifuge node + client for a slice of them"]
    return v


CHECKS["C11"] = c11


# ---------------------------------------------------------------------------------------------------
# C15: concurrent ingestion / reads: valid views, serial outcome, no data race

def _validate_conc(trace, tag):
    d = c.sub("trace")
    cfg = os.path.join(d, "conc_%s.cfg" % tag)
    consts = {"MaxN": 100000, "Works": c.tla_set((0, 1, 2, 4)), "SharedRoots": "TRUE", "MaxFuture": 100000, "MaxForb": 100000, "Deviations": "{}"}
    c.write_cfg(cfg, "TraceSpec", consts, [], (), extra=["POSTCONDITION TraceAccepted"])
    dst = os.path.join(d, tag)
    os.makedirs(dst, exist_ok=True)
    f = os.path.join(dst, "conc_trace.ndjson")
    os.replace(trace, f)
    res = c.run_tlc("Trace_Conc", cfg, workers=1, timeout=3000, extra_files=[f])
    lines = open(f).read().splitlines()
    if res.ok:
        return res, None, len(lines)
    if "TraceAccepted" in res.out or "ostcondition" in res.out:
        upto = max(0, res.distinct - 1)
        start = upto
        while start > 0 and '"ev":"scenario"' not in lines[start]:
            start -= 1
        bad = lines[upto] if upto < len(lines) else "?"
        return res, ("recorded concurrent execution rejected by Trace_Conc.tla at event %d of %d: %s" % (upto + 1, len(lines), bad[:500]),
                     {"family": "conc-trace", "scenario_events": lines[start:upto + 1]}), len(lines)
    raise c.Infra("trace validation TLC failure:\n" + res.out[-2500:])


def peer_churn(tier, seed):
    """The real P2P server built with -race: peer connect / deliver / disconnect churn against API readers."""
    import re
    from checks_misc import build_rig
    rig = build_rig(race=True)
    d = c.sub("churn")
    rounds = 30 if tier == "quick" else 400
    p = c.run_harness(rig, {"VERIF_OP": "churn", "VERIF_OUT": os.path.join(d, "o.json"), "VERIF_DB": os.path.join(d, "c.db"), "VERIF_ROUNDS": rounds,
                            "VERIF_SEED": seed, "GORACE": "halt_on_error=0", "TMPDIR": d}, cwd=d, timeout=3000)
    sites = [x for f in c.findings_for("C15") for x in f.get("sites", [])]
    explained, unexplained = 0, []
    if not os.path.exists(os.path.join(d, "o.json")):
        # the process died: with the listed race the Go runtime itself may abort it ("concurrent map iteration and map write")
        i = max(p.stderr.find("fatal error:"), p.stderr.find("panic:"))
        if i < 0 or ("fatal error:" not in p.stderr and c.panic_in_harness(p.stderr)):
            raise c.Infra("churn run failed: %s" % p.stderr[-2000:])
        crash = p.stderr[i:i + 6000]
        # (race reports are interleaved with the runtime's goroutine dump: the listed sites are looked for in all of it)
        if "concurrent map" in crash.splitlines()[0] and any(sx in p.stderr[i:] for sx in sites):
            explained += 1
        else:
            unexplained.append({"pair": "the process crashed: " + crash.splitlines()[0][:200], "text": crash})
        with open(os.path.join(d, "o.json"), "w") as f:
            json.dump({"rounds": rounds, "crashed": True}, f)
    for b in p.stderr.split("WARNING: DATA RACE")[1:]:
        b = b.split("==================")[0]
        if any(sx in b for sx in sites):
            explained += 1
            continue
        fr = [f for f in re.findall(r"\n  (\S+)\(\)\n", b) if "block-headers-service" in f and "verifh" not in f]
        unexplained.append({"pair": " / ".join(fr[:1] + fr[-1:]), "text": b})
    res = json.load(open(os.path.join(d, "o.json")))
    res.update({"race_reports": explained + len(unexplained), "explained": explained, "unexplained": unexplained})
    return res


def c15(tier, seed, replay_path=None):
    binary = fc.build()
    if replay_path and json.load(open(replay_path))["case"].get("family") == "longreorg":
        res, viol = long_reorg(binary, tier, json.load(open(replay_path)).get("seed", seed), "C15")
        return {"violations": viol, "known": [], "notes": [], "level": "model_checking", "coverage": {"states": 1, "transitions": 1, "traces_validated_against_impl": 1, "samples": ["long reorg"]}, "assumptions": []}
    if replay_path:
        raise c.Infra("C15 violations are recorded traces; re-run the check with the same VERIF_SEED to reproduce (replay file holds the rejected events)")
    runs, viol, notes = [], [], []
    # 1. design: every interleaving at repository-call grain, serialised Adds (the mutex of the D13 fix), one reader
    n = 3 if tier == "quick" else 4
    INV = ["LValid", "NeverTwoLongestAtOneHeight", "ReaderSeesValidTip", "SerialOutcome", "AckedNeverLost"]
    runs.append(fs.tlc_props(fs.steps_consts(n, Procs=(1, 2), Readers=(9,), AddMutex=True, MaxFuture=1), INV, ["ImmutableS"], coverage=(tier == "thorough")))
    if tier == "thorough":
        runs.append(fs.tlc_props(fs.steps_consts(3, Procs=(1, 2, 3), Readers=(9,), AddMutex=True, MaxFuture=0), INV))
    # the model must be able to SEE the defect the mutex prevents: without it TLC has to find two longest headers at one height
    r0 = fs.tlc_props(fs.steps_consts(3, Procs=(1, 2), Readers=(), AddMutex=False), ["LValid"], must_pass=False)
    if r0.ok or not r0.violation:
        raise c.Infra("model sensitivity lost: ChainSteps without the Add mutex no longer violates LValid")
    # 2. conformance B: real goroutines under the harness scheduler, recorded and validated by TLC
    nsc = 40 if tier == "quick" else 600
    shards = 6 if tier == "quick" else 16
    procs = []
    import subprocess
    env = c.go_env()
    for i in range(shards):
        d = c.sub("conc%02d" % i)
        e = dict(env)
        e.update({"VERIF_OP": "conc", "VERIF_OUT": os.path.join(d, "t.ndjson"), "VERIF_DB": os.path.join(d, "c.db"),
                  "VERIF_SEED": str(seed * 1000 + i), "VERIF_SCENARIOS": str(nsc)})
        procs.append((d, c.FileProc([binary, "-test.run", "^TestHarness$", "-test.timeout", "0"], e, d)))
    stats = {}
    traces = []
    import time as _t
    _t0 = _t.time()
    for d, pr in procs:
        so, se = pr.communicate(timeout=3000)
        if pr.returncode != 0:
            raise c.Infra("conc harness failed: %s" % se[-2000:])
        for k, v in json.load(open(os.path.join(d, "t.ndjson.stats"))).items():
            stats[k] = stats.get(k, 0) + v
        traces.append(os.path.join(d, "t.ndjson"))
    c.log("  conc harness: %d shards x %d scenarios %.1fs" % (shards, nsc, _t.time() - _t0))
    _t0 = _t.time()
    events = 0
    samples = []
    import concurrent.futures
    def one(i_tr):
        i, tr = i_tr
        return _validate_conc(tr, "s%02d" % i)
    with concurrent.futures.ThreadPoolExecutor(max_workers=8) as ex:
        for res, v, nl in ex.map(one, list(enumerate(traces))):
            runs.append(res)
            events += nl
            if v:
                viol.append(v)
    c.log("  trace validation: %d events %.1fs" % (events, _t.time() - _t0))
    _t0 = _t.time()
    d0 = os.path.join(c.sub("trace"), "s00", "conc_trace.ndjson")
    samples = [json.loads(x) for x in open(d0).read().splitlines()[:8]]
    # 3. race detector: the same scenarios free-running (no scheduler) plus HTTP readers, built with -race
    rb = c.build_harness(race=True, **fc.HARNESS)
    rd = c.sub("race")
    p = c.run_harness(rb, {"VERIF_OP": "conc", "VERIF_OUT": os.path.join(rd, "r.ndjson"), "VERIF_DB": os.path.join(rd, "r.db"), "VERIF_SEED": seed,
                           "VERIF_SCENARIOS": 150 if tier == "quick" else 3000, "VERIF_FREE": "1", "GORACE": "halt_on_error=0"}, cwd=rd, timeout=3000)
    c.log("  race build+run: %.1fs" % (_t.time() - _t0))
    races = p.stderr.count("WARNING: DATA RACE")
    try:
        rstats = json.load(open(os.path.join(rd, "r.ndjson.stats")))
    except Exception:
        rstats = {}
    if not races and p.returncode == 0 and rstats.get("webhook-posts", 0) == 0:
        raise c.Infra("vacuous race run: no webhook delivery happened: %s" % rstats)
    if races:
        i = p.stderr.index("WARNING: DATA RACE")
        viol.append(("race detector: %d data race report(s) in free-running concurrent ingestion/reads" % races,
                     {"family": "race", "report": p.stderr[i:i + 3000]}))
    elif p.returncode != 0:
        if ("panic:" in p.stderr and not c.panic_in_harness(p.stderr)) or "fatal error" in p.stderr:
            viol.append(("process crashed under free-running concurrent ingestion/reads", {"family": "race", "report": p.stderr[-3000:]}))
        else:
            raise c.Infra("race run failed: %s" % p.stderr[-2000:])
    else:
        res, v, nl = _validate_conc(os.path.join(rd, "r.ndjson"), "race")
        runs.append(res)
        events += nl
        if v:
            viol.append(v)
    if stats.get("reads", 0) == 0 or stats.get("concurrent-headers", 0) == 0:
        raise c.Infra("vacuous run: %s" % stats)
    cov = {"states": sum(r.distinct for r in runs), "transitions": sum(r.generated for r in runs),
           "traces_validated_against_impl": stats.get("scenarios", 0) + (150 if tier == "quick" else 3000),
           "recorded_events_validated": events, "scheduler_stats": stats, "samples": samples,
           "model_sensitivity": "ChainSteps with AddMutex=FALSE violates LValid (TLC counter-example found, %d states)" % r0.distinct,
           "race_detector_reports": races, "race_run_webhook_deliveries": rstats.get("webhook-posts", 0),
           "rule": "2-3 submitter goroutines (competing children of the tip, forks, children of headers another goroutine is adding) and 1-2 reader goroutines over the real SQL "
                   "stack; repository calls are granted one at a time in a seeded random order by the harness scheduler; every snapshot after a write and at every read, and the "
                   "final store, are validated by TLC against Trace_Conc.tla (StructValid snapshots, reader tip = top, final = Chain.AddRow folded in SOME order)"}
    # peers connecting, delivering headers and disconnecting while API readers ask /network/peer, /network/peer/count and
    # the tip: the real P2P server under the race detector
    known = []
    churn = peer_churn(tier, seed)
    cov["peer_churn"] = {k: x for k, x in churn.items() if k not in ("unexplained", "explained")}
    for f in c.findings_for("C15"):
        if f.get("sites") and churn["explained"]:
            known.append("%s [%d race-detector reports with NetworkService.GetPeers / GetPeersCount on one side]" % (f["what"], churn["explained"]))
    for r in churn["unexplained"][:5]:
        viol.append(("the race detector reports a data race while peers connect and disconnect: %s" % r["pair"], {"family": "churn-race", "report": r["text"][:6000]}))
    # a reader can only come between two ROWS of one repository write if that write is not atomic; the scheduler works at
    # repository-call granularity, so atomicity of a write relabelling > 500 rows is checked with row-level failures
    lr, lviol = long_reorg(binary, tier, seed, "C15")
    cov["long_reorg"] = {k: x for k, x in lr.items() if k != "mismatch"}
    viol += lviol
    return {"violations": viol, "known": known, "notes": notes, "level": "model_checking", "coverage": cov,
            "assumptions": ASSUME + ["schedules explored on the real code are seeded random ones at repository-call granularity; the exhaustive enumeration is on ChainSteps.tla",
                                     "peer churn runs free (no scheduler): three scripted nodes connect, send headers and inv, and disconnect in a loop while three goroutines call the API; the race detector is the monitor"]}


CHECKS["C15"] = c15
