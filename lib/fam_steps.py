"""ChainSteps family helpers: C05 (faults), C15 (concurrency), C11 (notification)."""
import os, random, json
import common as c
import fam_chain as fc


def steps_consts(MaxN, Procs=(1,), Readers=(), AddMutex=True, MaxKills=0, MaxErrs=0, MaxOps=24, Works=(1, 2), MaxFuture=0,
                 Deviations=(), Emit="none"):
    return {"MaxN": MaxN, "Works": c.tla_set(Works), "SharedRoots": "FALSE", "MaxFuture": MaxFuture, "MaxForb": 0,
            "Deviations": c.tla_set(Deviations), "Procs": c.tla_set(Procs), "Readers": c.tla_set(Readers),
            "AddMutex": "TRUE" if AddMutex else "FALSE", "MaxKills": MaxKills, "MaxErrs": MaxErrs, "MaxOps": MaxOps,
            "Emit": '"%s"' % Emit}


def tlc_props(consts, invariants, properties=(), timeout=1800, coverage=False, must_pass=True):
    d = c.sub("cfg")
    cfg = os.path.join(d, "sprop_%d.cfg" % random.randrange(1 << 30))
    c.write_cfg(cfg, "MSSpec", consts, invariants, properties, view="SView")
    r = c.run_tlc("MC_ChainSteps", cfg, timeout=timeout, coverage=coverage, workers=c.NCPU)
    c.log("  tlc steps props: %d distinct states, %.1fs ok=%s" % (r.distinct, r.wall, r.ok))
    if must_pass:
        c.tlc_must_pass(r, "MC_ChainSteps " + ",".join(invariants))
    return r


def generate(tag, consts, timeout=3600, sample=None, rng=None):
    d = c.sub("gen")
    cfg = os.path.join(d, tag + ".cfg")
    c.write_cfg(cfg, "MSSpec", consts, ["EmitInv"], ())
    raw = os.path.join(d, tag + ".out")
    res = c.run_tlc("MC_ChainSteps", cfg, timeout=timeout, out_file=raw)
    if not res.ok:
        raise c.Infra("generation run %s failed:\n%s" % (tag, res.out[-2000:]))
    out = os.path.join(d, tag + ".jsonl")
    n = c.unquote_lines(raw, out)
    os.unlink(raw)
    if sample and n > sample:
        rng = rng or random.Random(0)
        keep = set(rng.sample(range(n), sample))
        tmp = out + ".s"
        with open(out) as fi, open(tmp, "w") as fo:
            for i, line in enumerate(fi):
                if i in keep:
                    fo.write(line)
        os.replace(tmp, out)
        n = sample
    c.log("  gen %s: %d behaviours, tlc %.1fs (%d states)" % (tag, n, res.wall, res.distinct))
    return out, n, res
