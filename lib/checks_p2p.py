"""C06 (sync convergence) and C07 (containment of forbidden headers / checkpoint violators) on the P2P rig."""
import json, os, random
import common as c
import fam_chain as fc
import fam_sync as fs
from checks_chain import merge
from checks_misc import build_rig

LIMITS = ("L1-announcement-not-followed", "L2-no-sync-candidate-left", "L3-lagging-sync-peer", "O1-orphaned-announcement", "X1-inv-ignored")

ASSUME = ["legacy engine: real p2p.newServer + SyncManager + peer objects + SQL stack, offline, scripted protocol nodes on loopback TCP (127.0.0.x)",
          "behaviours are lock-step: one environment event, then the service is allowed to finish (ping/pong + manager + server barriers); free interleavings are explored on Sync.tla by TLC",
          "nodes answer getheaders by the protocol rule; the sync-peer choice among several equal candidates is random in the code, so only single-candidate situations are generated for replay",
          "stall timers (30 s tick, 3 min) are compile-time constants: stalls are modelled as the node going away",
          "E1: an honest node stays connected; E2: connected nodes answer every getheaders",
          "experimental engine: real internal/transports/p2p/peer.Peer dialling one scripted node (its single-outbound-peer design), real services and SQL store; SyncExp.tla"]


def families(tier, F):
    q = tier == "quick"
    fam = [
        ("cp1",  fs.sync_consts(4, CpHs=(2,), MaxEnv=6, Findings=F, Emit="paths", Scenario="one checkpoint, cap 2")),
        ("nocp", fs.sync_consts(4, CpHs=(2,), CpEnabled=False, MaxEnv=6, Findings=F, Emit="paths", Scenario="checkpoints disabled")),
        ("cp2f", fs.sync_consts(4, F=3, ForkAt=0, CpHs=(2, 4), Cap=3, MaxEnv=6, Findings=F, Emit="paths", Scenario="two checkpoints, a node on a branch contradicting the first")),
        ("scr", fs.sync_consts(3, CpHs=(2,), Cap=3, MaxEnv=6, MaxConnects=3, Findings=F, Emit="paths", Scenario="scripted kinds of events: every who/what/how of each script")),
        ("two", fs.sync_consts(3, F=2, ForkAt=1, F2=2, ForkAt2=1, CpHs=(2,), Cap=4, MaxEnv=5, Findings=F, Emit="paths", Scenario="two different branches contradicting the checkpoint, delivered by two nodes")),
        ("forb", fs.sync_consts(3, F=2, ForkAt=1, CpHs=(1,), Cap=4, Forbid=(4,), MaxEnv=6, Findings=F, Emit="paths", Scenario="forbidden header on a fork branch")),
        ("cptip", fs.sync_consts(5, CpHs=(5,), Cap=2, MaxEnv=5, Findings=F, Emit="paths", Scenario="last checkpoint at the honest tip")),
        ("raw", fs.sync_consts(5, F=2, ForkAt=3, CpHs=(2, 4), Cap=4, MaxEnv=5, MaxRaw=2, Findings=F, Emit="paths", Scenario="nodes that ignore the stop hash; a branch contradicting the second checkpoint")),
        ("rst", fs.sync_consts(5, CpHs=(2, 4), Cap=2, Peers=(1,), MaxConnects=3, MaxRestarts=1, MaxEnv=7, Findings=F, Emit="paths", Scenario="restart on a partially synced database, two checkpoints")),
    ]
    if not q:
        fam += [("long", fs.sync_consts(7, CpHs=(3, 5), Cap=2, MaxEnv=6, Findings=F, Emit="paths", Scenario="seven blocks, two checkpoints")),
                ("fork", fs.sync_consts(4, F=4, ForkAt=2, CpHs=(2,), Cap=4, MaxEnv=6, Findings=F, Emit="paths", Scenario="competing longer fork after the checkpoint")),
                ("p3", fs.sync_consts(4, CpHs=(2,), Peers=(1, 2, 3), MaxConnects=3, MaxEnv=6, Findings=F, Emit="paths", Scenario="three nodes"))]
    return fam


# families whose environment follows scripts of event kinds drawn by the driver (plus a few fixed ones): every concrete
# behaviour of every script is enumerated by TLC
CURATED = [("connect", "reply", "connect", "announce", "close", "announce"),      # an announcement asked of a node that leaves, then announced by another
           ("connect", "connect", "reply", "announce", "close", "announce"),
           ("connect", "reply", "announce", "close", "connect", "reply"),
           ("connect", "reply", "close", "connect", "reply", "announce"),
           ("connect", "connect", "announce", "announce", "close", "reply"),
           # a node is cut (forbidden header, contradicted checkpoint) and its host comes back - from another port, as it must
           # (two connections per behaviour: after the refused one nothing is left to answer, the script ends there)
           ("connect", "reply", "reply", "connect"),
           ("connect", "reply", "connect")]
def _scripts(n, length, extra=(), curated=True):
    return lambda rng: sorted((set(CURATED) if curated else set()) | set(fs.random_scripts(rng, n, length, extra)))


def scripts_for(tier):
    """family tag -> script generator.  Quick tier: every family but the first is scripted (TLC then enumerates a few thousand
    behaviours in seconds and ALL of them are replayed); thorough tier: the free enumerations as well (sampled)."""
    n = 25 if tier == "quick" else 120
    ln = 6 if tier == "quick" else 7
    sc = {"scr": _scripts(n, ln), "nocp": _scripts(n, ln), "cp2f": _scripts(n, ln), "two": _scripts(n, ln), "forb": _scripts(n, ln),
          "cptip": _scripts(n, ln), "raw": _scripts(n, ln, ("rawreply",)), "rst": _scripts(n, ln + 1, ("restart",))}
    return sc


SCRIPTS = scripts_for("quick")


def exp_families(tier, F):
    q = tier == "quick"
    fam = [
        ("xa", fs.exp_consts(5, CpHs=(2, 4), Cap=2, MaxEnv=6, Findings=F, Emit="paths", Scenario="experimental: two checkpoints, cap 2")),
        ("xb", fs.exp_consts(4, CpHs=(), Cap=3, MaxEnv=6, Findings=F, Emit="paths", Scenario="experimental: no checkpoints")),
        ("xc", fs.exp_consts(3, F=3, ForkAt=0, CpHs=(2,), Cap=4, MaxEnv=5, Findings=F, Emit="paths", Scenario="experimental: node on a branch contradicting the checkpoint")),
        ("xr", fs.exp_consts(5, F=2, ForkAt=3, CpHs=(2, 4), Cap=4, MaxEnv=5, MaxRaw=2, Findings=F, Emit="paths", Scenario="experimental: node ignoring the stop hash; branch contradicting the second checkpoint")),
        ("xd", fs.exp_consts(3, F=2, ForkAt=1, CpHs=(1,), Cap=4, Forbid=(4,), MaxEnv=6, Findings=F, Emit="paths", Scenario="experimental: forbidden header on a fork branch")),
    ]
    if not q:
        fam += [("xe", fs.exp_consts(7, CpHs=(3, 7), Cap=2, MaxEnv=7, Findings=F, Emit="paths", Scenario="experimental: seven blocks, last checkpoint at the tip")),
                ("xf", fs.exp_consts(3, F=4, ForkAt=1, CpHs=(1,), Cap=4, MaxEnv=7, Findings=F, Emit="paths", Scenario="experimental: longer fork after the checkpoint")),
                ("xg", fs.exp_consts(4, F=2, ForkAt=2, CpHs=(), Cap=1, Forbid=(3,), MaxEnv=7, Findings=F, Emit="paths", Scenario="experimental: forbidden header on the main branch, cap 1"))]
    return fam


def sync_run(prop, tier, seed, kinds, replay_path):
    rigbin = build_rig()
    rng = random.Random(seed)
    # the specification follows every listed finding of the sync engines (C06 and C07); each check reports its own
    listed = {f["deviation"]: f for f in c.findings_for("C06") + c.findings_for("C07") if f.get("deviation")}
    F = tuple(sorted(listed))
    runs, aggs, gen = [], [], {}
    if replay_path:
        payload = json.load(open(replay_path))
        p = os.path.join(c.sub("replay"), "one.jsonl")
        open(p, "w").write(json.dumps(payload["case"]["behaviour"]) + "\n")
        if payload["case"].get("engine") == "experimental":
            agg = fc.replay(fc.build(), p, seed, op="syncexp", nproc=1)
        else:
            agg = fc.replay(rigbin, p, seed, op="sync", nproc=1)
        return verdict(prop, agg, [], kinds, listed, {})
    # design: the manager state machine on every lock-step behaviour of the scenario family (VIEW without history)
    for tag, consts in families(tier, F)[:3 if tier == "quick" else 8]:
        pc = dict(consts)
        pc["Emit"] = '"none"'
        r = fs.tlc(pc, ["StoreValid", "ForbiddenNeverStoredS", "BannedStayOut", "ConvergesOrListed"], view="SyView", constraint="ChoiceConstraint", workers=c.NCPU)
        if not r.ok:
            c.tlc_must_pass(r, "MC_Sync " + tag)
        c.log("  tlc sync %s: %d distinct states %.1fs" % (tag, r.distinct, r.wall))
        runs.append(r)
    n_each = 3000 if tier == "quick" else 12000      # (27 families: 20000 each took 75 minutes of replay - measured)
    # generation (TLC, a few workers each) of the families runs three at a time; replays follow one after the other
    from concurrent.futures import ThreadPoolExecutor
    fams = families(tier, F)
    SCRIPTS = scripts_for(tier)
    if tier != "quick":
        # thorough: every scripted family also runs free (uniform over concrete behaviours, sampled)
        fams = fams + [(tag + "free", dict(consts)) for tag, consts in fams if tag in SCRIPTS and tag != "scr"]
    seeds = [rng.randrange(1 << 30) for _ in fams]
    with ThreadPoolExecutor(max_workers=2) as ex:
        futs = [ex.submit(fs.generate, prop + tag, consts, n_each, random.Random(sd), None, None, None, "ChoiceConstraint", SCRIPTS.get(tag) and SCRIPTS[tag](random.Random(sd)))
                for (tag, consts), sd in zip(fams, seeds)]
        for (tag, consts), fu in zip(fams, futs):
            out, n, r = fu.result()
            runs.append(r)
            gen[tag] = {"behaviours": n, "scenario": consts["Scenario"]}
            if tag == "forb":
                gen[tag]["banned_host_returns"] = sum(1 for line in open(out) if '"banned":true' in line)
                if gen[tag]["banned_host_returns"] == 0:
                    raise c.Infra("vacuous forb family: no behaviour in which a banned host connects again")
            aggs.append(fc.replay(rigbin, out, seed, op="sync", nproc=c.NCPU))
    # the experimental engine (SyncExp.tla): exhaustive bounded check, then every lock-step behaviour (sampled) on the real Peer
    chainbin = fc.build()
    xn = 1500 if tier == "quick" else 20000
    for tag, consts in exp_families(tier, F):
        pc = dict(consts)
        pc["Emit"] = '"none"'
        r = fs.tlc_exp(pc, ["XStoreValid", "XForbiddenNeverStored", "ConvergesOrListed"], workers=c.NCPU)
        if not r.ok:
            c.tlc_must_pass(r, "MC_SyncExp " + tag)
        runs.append(r)
        out, n, r = fs.generate_exp(prop + tag, consts, sample=xn, rng=rng)
        runs.append(r)
        gen[tag] = {"behaviours": n, "scenario": consts["Scenario"]}
        a = fc.replay(chainbin, out, seed, op="syncexp", nproc=c.NCPU, timeout=600)
        for m in a["mismatches"]:
            m["engine"] = "experimental"
        aggs.append(a)
    agg = merge(aggs)
    return verdict(prop, agg, runs, kinds, listed, gen)


def verdict(prop, agg, runs, kinds, listed, gen):
    if agg["crashed"]:
        # the service runs inside the harness process: a crash of one of its goroutines is an observation about the code
        cr = agg["crashed"][0]
        if "panic:" in cr["stderr"] and "HARNESS-ERROR" not in cr["stderr"] and not c.panic_in_harness(cr["stderr"]):
            return {"violations": [("the service crashed during a sync behaviour: %s" % cr["stderr"][-800:], {"family": "sync-crash", "stderr": cr["stderr"][-3000:]})],
                    "known": [], "notes": [], "level": "model_checking",
                    "coverage": {"states": 1, "transitions": 1, "traces_validated_against_impl": agg["behaviours"], "samples": ["crash"]}, "assumptions": ASSUME}
        raise c.Infra("sync rig failed: %s" % json.dumps(agg["crashed"])[:1500])
    viol, notes, known, seen = [], [], [], set()
    drift = 0
    for m in agg["mismatches"]:
        if m["kind"] == "sync-drift":
            drift += 1
            continue
        if m["kind"] not in kinds:
            continue
        key = (m["shard"], m["line"])
        if key in seen:
            continue
        seen.add(key)
        beh = fc.behaviour_at(m["shard"], m["line"])
        viol.append(("%s: expected %s, got %s" % (m["kind"], m["exp"], m["got"]), {"family": "sync", "engine": m.get("engine", "legacy"), "behaviour": beh, "mismatch": m}))
    st = agg["stats"]
    for dev, f in sorted(listed.items()):
        n = st.get("finding-witness:" + dev, 0)
        if n and f["property"] == prop == "C06":
            known.append("%s [%d replayed behaviours end behind the best chain offered for this reason, on the specification AND on the real engine]" % (f["what"], n))
        elif n and f["property"] == prop:
            known.append("%s [witnessed in %d replayed behaviours, on the specification AND on the real engine]" % (f["what"], n))
    if drift:
        notes.append("model drift: in %d behaviours the engine asked/answered differently from Sync.tla without affecting the outcome checked here (see evidence)" % st.get("drifted-behaviours", drift))
    if st.get("inconclusive-behaviours", 0) > max(5, agg["behaviours"] // 50):
        # (no verdict from such a run, whatever else it observed: on a machine that cannot even hand out ports the
        # "decisive" observations are not decisive - the final evidence run of C06 showed five of them)
        raise c.Infra("the machine was too busy: %d of %d behaviours had a synchronisation barrier time out" % (st["inconclusive-behaviours"], agg["behaviours"]))
    if st.get("inconclusive-behaviours", 0):
        notes.append("%d behaviours were discarded because a synchronisation barrier timed out (busy machine)" % st["inconclusive-behaviours"])
    if st.get("outcomes", 0) == 0 and gen:
        raise c.Infra("vacuous run: no outcome was compared: %s" % dict(st))
    cov = {"states": sum(r.distinct for r in runs), "transitions": sum(r.generated for r in runs), "traces_validated_against_impl": agg["behaviours"],
           "environment_events_replayed": agg["steps"], "generation": gen, "outcomes": {k: v for k, v in st.items() if k.startswith("outcome") or k.startswith("finding")},
           "drifted_behaviours": st.get("drifted-behaviours", 0), "exhaustive": False,
           "samples": [_s(x) for x in agg["samples"][:2]] or ["none"],
           "rule": "lock-step behaviours of Sync.tla (connect with any best block, answer, announce by inv or headers, go away, reconnect of a banned host) enumerated by TLC per scenario "
                   "family and sampled; replayed on the real server with scripted nodes; per step: disconnects owed for cause and forbidden blocks never stored; at the end every node "
                   "answers until nothing is asked and the store is compared with the best chain offered (unless a listed single-sync-peer limitation explains the specification's own shortfall)"}
    return {"violations": viol, "known": known, "notes": notes, "level": "model_checking", "coverage": cov, "assumptions": ASSUME}


def _s(x):
    try:
        v = json.loads(x)
        if isinstance(v, dict) and "hist" in v:
            v["hist"] = v["hist"][:10]
        return v
    except Exception:
        return x[:1500]


def serve_run(tier, seed):
    """C13 at the protocol level: the service as a SERVER of headers (serverpeer.OnGetHeaders) on the legacy rig."""
    rigbin = build_rig()
    listed = {f["deviation"]: f for f in c.findings_for("C06") + c.findings_for("C07") if f.get("deviation")}
    F = tuple(sorted(listed))
    aggs, states, total = [], 0, 0
    for tag, consts in [("a", fs.sync_consts(4, F=2, ForkAt=1, CpHs=(2,), Cap=3, Peers=(1,), MaxConnects=2, MaxEnv=5, MaxAsks=2, Findings=F, Emit="paths",
                                             Scenario="a node asks the service for headers, one checkpoint (before and after the service is current)")),
                        ("b", fs.sync_consts(3, F=2, ForkAt=1, CpHs=(), Cap=3, Peers=(1, 2), MaxEnv=4, MaxAsks=1, Findings=F, Emit="paths",
                                             Scenario="two nodes, no checkpoints: one asks the service for headers"))]:
        out, n, r = fs.generate("C13srv" + tag, consts, rng=random.Random(seed))
        # keep every behaviour in which a request is answered, and as many of the others
        ans, oth = [], []
        for line in open(out):
            (ans if '"sent":true' in line else oth).append(line)
        rr = random.Random(seed)
        rr.shuffle(ans)
        rr.shuffle(oth)
        cap = 400 if tier == "quick" else 4000
        keep = ans[:cap] + oth[:min(len(oth), cap // 2)]
        with open(out, "w") as fo:
            fo.writelines(keep)
        aggs.append(fc.replay(rigbin, out, seed, op="sync", nproc=c.NCPU))
        states += r.distinct
        total += len(keep)
    agg = merge(aggs)
    r = type("R", (), {"distinct": states})()
    n = total
    return agg, r, n


def notify_run(tier, seed):
    """C11 through the P2P path: what the legacy engine stores goes out as exactly one ADD event each (scripted family)."""
    rigbin = build_rig()
    listed = {f["deviation"]: f for f in c.findings_for("C06") + c.findings_for("C07") if f.get("deviation")}
    F = tuple(sorted(listed))
    consts = dict(families(tier, F))["scr"]
    rng = random.Random(seed)
    out, n, r = fs.generate("C11scr", consts, sample=1500 if tier == "quick" else 20000, rng=rng, scripts=scripts_for(tier)["scr"](rng))
    return fc.replay(rigbin, out, seed, op="sync", nproc=c.NCPU), r, n


def serve_exp_run(tier, seed):
    """C13 at the protocol level, experimental engine: at the end of each behaviour the node asks for headers."""
    chainbin = fc.build()
    listed = {f["deviation"]: f for f in c.findings_for("C06") + c.findings_for("C07") if f.get("deviation")}
    F = tuple(sorted(listed))
    consts = exp_families(tier, F)[0][1]
    out, n, r = fs.generate_exp("C13x", consts, sample=800 if tier == "quick" else 8000, rng=random.Random(seed))
    return fc.replay(chainbin, out, seed, op="syncexp", nproc=c.NCPU, timeout=600), r, n


def c06(tier, seed, replay_path=None):
    return sync_run("C06", tier, seed, {"sync-outcome"}, replay_path)


def c07(tier, seed, replay_path=None):
    return sync_run("C07", tier, seed, {"sync-contain"}, replay_path)


CHECKS = {"C06": c06, "C07": c07}
