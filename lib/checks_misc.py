"""C19 (compact arithmetic), C14 (wire codec), C17 (export/import), C18 (peer management)."""
import json, os, random, shutil, subprocess, concurrent.futures
import common as c
import fam_chain as fc
from checks_chain import ASSUME, merge
from checks_api import simple_verdict


def c19(tier, seed, replay_path=None):
    binary = fc.build()
    d = c.sub("compact")
    shards = 8 if tier == "quick" else 16
    nrand = 600 if tier == "quick" else 150000
    p = c.run_harness(binary, {"VERIF_OP": "compact", "VERIF_OUT": os.path.join(d, "v"), "VERIF_SEED": seed, "VERIF_RANDOM": nrand, "VERIF_SHARDS": shards}, cwd=d)
    if p.returncode != 0:
        raise c.Infra("compact recorder failed: %s" % p.stderr[-1500:])
    stats = json.load(open(os.path.join(d, "v.stats")))
    cfg = os.path.join(d, "t.cfg")
    c.write_cfg(cfg, "TraceSpec", {}, [], (), extra=["POSTCONDITION TraceAccepted"])

    def one(i):
        sd = os.path.join(d, "s%02d" % i)
        os.makedirs(sd, exist_ok=True)
        f = os.path.join(sd, "compact_trace.ndjson")
        shutil.move(os.path.join(d, "v.%02d" % i), f)
        r = c.run_tlc("Trace_Compact", cfg, workers=1, timeout=3400, extra_files=[f])
        lines = open(f).read().splitlines()
        if r.ok:
            return r, None, len(lines), lines[:2]
        if "TraceAccepted" in r.out or "ostcondition" in r.out:
            k = max(0, r.distinct - 1)
            bad = lines[k] if k < len(lines) else "?"
            return r, ("arithmetic result recorded from the code contradicts Compact.tla: %s" % bad[:600], {"family": "compact", "line": bad, "previous": lines[max(0, k - 1)]}), len(lines), lines[:2]
        raise c.Infra("Trace_Compact TLC failure:\n" + r.out[-2000:])
    runs, viol, n, samples = [], [], 0, []
    with concurrent.futures.ThreadPoolExecutor(max_workers=shards) as ex:
        for r, v, nl, sm in ex.map(one, range(shards)):
            runs.append(r)
            n += nl
            samples += [json.loads(x) for x in sm[:1]]
            if v:
                viol.append(v)
    cov = {"evaluations": n, "distinct_nontrivial": stats["vectors"] + stats["log2"], "exhaustive": False,
           "rule": "bits vectors: all 256 exponents x both signs x a 19-point mantissa lattice + one random mantissa each + %d random 32-bit values + real network values; "
                   "log2: the window [2^k-140, 2^k+3] around every power of two + random values. Each recorded (bits, target, work) / (n, r) line is validated by TLC against "
                   "Compact.tla over arbitrary-precision naturals written in TLA+ (BigNat.tla): exact target, defining inequality of floor(2^256/(t+1)), antitone work between neighbours; "
                   "distinct = distinct inputs recorded" % nrand,
           "samples": samples[:4], "tlc_states": sum(r.distinct for r in runs), "vectors": stats}
    return {"violations": viol, "known": [], "notes": [], "level": "exploration", "coverage": cov,
            "assumptions": ["TLC and the Json module are trusted; the reference arithmetic is spec/BigNat.tla + spec/Compact.tla, not Go code",
                            "the 2^32 domain is sampled (structured lattice + random), not enumerated: TLC cannot enumerate it"]}


def c14(tier, seed, replay_path=None):
    binary = fc.build()
    d = c.sub("gen")
    cfg = os.path.join(d, "wire.cfg")
    c.write_cfg(cfg, "WSpec", {}, ["RoundTrip", "HostileRejected", "AllocationBounded", "EmitInv"])
    raw = os.path.join(d, "C14.out")
    r = c.run_tlc("MC_Wire", cfg, workers=1, out_file=raw)
    if not r.ok:
        c.tlc_must_pass(r, "MC_Wire")
    tbl = os.path.join(d, "C14.table.json")
    if c.unquote_lines(raw, tbl, limit=1) != 1:
        raise c.Infra("frame-class table was not emitted")
    nrows = len(json.load(open(tbl))["rows"])
    inst = 3 if tier == "quick" else 40
    nsh = 8 if tier == "quick" else 16
    procs = []
    env = c.go_env()
    for i in range(nsh):
        sd = c.sub("wire%02d" % i)
        e = dict(env)
        e.update({"VERIF_OP": "wire", "VERIF_IN": tbl, "VERIF_OUT": os.path.join(sd, "res"), "VERIF_SEED": str(seed), "VERIF_INSTANCES": str(inst),
                  "VERIF_SHARD": str(i), "VERIF_NSHARD": str(nsh), "VERIF_RAW": str(1500 if tier == "quick" else 40000)})
        procs.append((sd, subprocess.Popen([binary, "-test.run", "^TestHarness$", "-test.timeout", "0"], env=e, cwd=sd, stdout=subprocess.PIPE, stderr=subprocess.PIPE, text=True)))
    aggs = []
    for sd, pr in procs:
        so, se = pr.communicate(timeout=3400)
        if pr.returncode != 0 or not os.path.exists(os.path.join(sd, "res")):
            # a crash of the decoder outside the watchdog (e.g. fatal error: out of memory) is an observation about the code
            if "fatal error" in se or "panic:" in se:
                return {"violations": [("wire decoder crashed the process: %s" % se[-600:], {"family": "wire", "stderr": se[-3000:]})], "known": [], "notes": [],
                        "level": "exploration", "coverage": {"evaluations": 1, "distinct_nontrivial": 2, "rule": "crash", "samples": ["crash"]}, "assumptions": []}
            raise c.Infra("wire harness failed: %s" % se[-1500:])
        res = json.load(open(os.path.join(sd, "res")))
        aggs.append({"behaviours": 0, "steps": res["steps"], "queries": res["queries"], "mismatches": res.get("mismatches") or [], "samples": res.get("samples") or [],
                     "crashed": [], "stats": res.get("stats") or {}, "dev_used": {}})
    agg = merge(aggs)
    agg["behaviours"] = nrows
    if agg["stats"].get("roundtrips", 0) < 30 or agg["queries"] < nrows:
        raise c.Infra("vacuous run: %s" % dict(agg["stats"]))
    v = simple_verdict("C14", agg, [r], {"rows": nrows, "instances_per_row": inst, "exhaustive": False,
                       "rule": "every buildable combination of frame classes (header, magic, command, declared length, checksum, payload mutation) x the 18 message kinds from Wire.tla "
                               "(emitted by TLC), several seeded concrete frames each at three protocol versions; valid frames are round-tripped (decoded value equality incl. times, "
                               "byte-identical re-encoding); plus raw random bytes and random mutations (bit flips, truncation, splicing) of valid frames under a watchdog with allocation accounting"})
    v["level"] = "exploration"
    v["coverage"]["evaluations"] = agg["queries"] + agg["stats"].get("raw", 0)
    v["coverage"]["distinct_nontrivial"] = nrows
    v["assumptions"] = ["the specification enumerates CLASSES of frames; arbitrary mutated byte strings are sampled, not enumerated (a coverage-guided fuzzer is outside this technique family)",
                        "allocation bound checked: a single decode may allocate at most twice the declared payload length plus 8 MB (nothing but 8 MB when the declared length exceeds a limit)"]
    for f in c.findings_for("C14"):
        v["known"].append(f["what"])
    return v


CHECKS = {"C19": c19, "C14": c14}
