"""C19 (compact arithmetic), C14 (wire codec), C17 (export/import), C18 (peer management)."""
import json, os, random, shutil, subprocess, concurrent.futures
import common as c
import fam_chain as fc
from checks_chain import ASSUME, merge
from checks_api import simple_verdict


def c19(tier, seed, replay_path=None):
    binary = fc.build()
    d = c.sub("compact")
    shards = 8 if tier == "quick" else 16
    nrand = 600 if tier == "quick" else 150000
    p = c.run_harness(binary, {"VERIF_OP": "compact", "VERIF_OUT": os.path.join(d, "v"), "VERIF_SEED": seed, "VERIF_RANDOM": nrand, "VERIF_SHARDS": shards}, cwd=d)
    if p.returncode != 0:
        raise c.Infra("compact recorder failed: %s" % p.stderr[-1500:])
    stats = json.load(open(os.path.join(d, "v.stats")))
    cfg = os.path.join(d, "t.cfg")
    c.write_cfg(cfg, "TraceSpec", {}, [], (), extra=["POSTCONDITION TraceAccepted"])

    def one(i):
        sd = os.path.join(d, "s%02d" % i)
        os.makedirs(sd, exist_ok=True)
        f = os.path.join(sd, "compact_trace.ndjson")
        shutil.move(os.path.join(d, "v.%02d" % i), f)
        r = c.run_tlc("Trace_Compact", cfg, workers=1, timeout=3400, extra_files=[f])
        lines = open(f).read().splitlines()
        if r.ok:
            return r, None, len(lines), lines[:2]
        if "TraceAccepted" in r.out or "ostcondition" in r.out:
            k = max(0, r.distinct - 1)
            bad = lines[k] if k < len(lines) else "?"
            return r, ("arithmetic result recorded from the code contradicts Compact.tla: %s" % bad[:600], {"family": "compact", "line": bad, "previous": lines[max(0, k - 1)]}), len(lines), lines[:2]
        raise c.Infra("Trace_Compact TLC failure:\n" + r.out[-2000:])
    runs, viol, n, samples = [], [], 0, []
    with concurrent.futures.ThreadPoolExecutor(max_workers=shards) as ex:
        for r, v, nl, sm in ex.map(one, range(shards)):
            runs.append(r)
            n += nl
            samples += [json.loads(x) for x in sm[:1]]
            if v:
                viol.append(v)
    cov = {"evaluations": n, "distinct_nontrivial": stats["vectors"] + stats["log2"], "exhaustive": False,
           "rule": "bits vectors: all 256 exponents x both signs x a 19-point mantissa lattice + one random mantissa each + %d random 32-bit values + real network values; "
                   "log2: the window [2^k-140, 2^k+3] around every power of two + random values. Each recorded (bits, target, work) / (n, r) line is validated by TLC against "
                   "Compact.tla over arbitrary-precision naturals written in TLA+ (BigNat.tla): exact target, defining inequality of floor(2^256/(t+1)), antitone work between neighbours; "
                   "distinct = distinct inputs recorded" % nrand,
           "samples": samples[:4], "tlc_states": sum(r.distinct for r in runs), "vectors": stats}
    return {"violations": viol, "known": [], "notes": [], "level": "exploration", "coverage": cov,
            "assumptions": ["TLC and the Json module are trusted; the reference arithmetic is spec/BigNat.tla + spec/Compact.tla, not Go code",
                            "the 2^32 domain is sampled (structured lattice + random), not enumerated: TLC cannot enumerate it"]}


CHECKS = {"C19": c19}
