"""C19 (compact arithmetic), C14 (wire codec), C17 (export/import), C18 (peer management)."""
import json, os, random, shutil, subprocess, concurrent.futures
import common as c
import fam_chain as fc
from checks_chain import ASSUME, merge
from checks_api import simple_verdict


def c19(tier, seed, replay_path=None):
    binary = fc.build()
    d = c.sub("compact")
    shards = 8 if tier == "quick" else 16
    nrand = 600 if tier == "quick" else 150000
    p = c.run_harness(binary, {"VERIF_OP": "compact", "VERIF_OUT": os.path.join(d, "v"), "VERIF_SEED": seed, "VERIF_RANDOM": nrand, "VERIF_SHARDS": shards}, cwd=d)
    if p.returncode != 0:
        raise c.Infra("compact recorder failed: %s" % p.stderr[-1500:])
    stats = json.load(open(os.path.join(d, "v.stats")))
    cfg = os.path.join(d, "t.cfg")
    c.write_cfg(cfg, "TraceSpec", {}, [], (), extra=["POSTCONDITION TraceAccepted"])

    def one(i):
        sd = os.path.join(d, "s%02d" % i)
        os.makedirs(sd, exist_ok=True)
        f = os.path.join(sd, "compact_trace.ndjson")
        shutil.move(os.path.join(d, "v.%02d" % i), f)
        r = c.run_tlc("Trace_Compact", cfg, workers=1, timeout=3400, extra_files=[f])
        lines = open(f).read().splitlines()
        if r.ok:
            return r, None, len(lines), lines[:2]
        if "TraceAccepted" in r.out or "ostcondition" in r.out:
            k = max(0, r.distinct - 1)
            bad = lines[k] if k < len(lines) else "?"
            return r, ("arithmetic result recorded from the code contradicts Compact.tla: %s" % bad[:600], {"family": "compact", "line": bad, "previous": lines[max(0, k - 1)]}), len(lines), lines[:2]
        raise c.Infra("Trace_Compact TLC failure:\n" + r.out[-2000:])
    runs, viol, n, samples = [], [], 0, []
    with concurrent.futures.ThreadPoolExecutor(max_workers=shards) as ex:
        for r, v, nl, sm in ex.map(one, range(shards)):
            runs.append(r)
            n += nl
            samples += [json.loads(x) for x in sm[:1]]
            if v:
                viol.append(v)
    cov = {"evaluations": n, "distinct_nontrivial": stats["vectors"] + stats["log2"], "exhaustive": False,
           "rule": "bits vectors: all 256 exponents x both signs x a 19-point mantissa lattice + one random mantissa each + %d random 32-bit values + real network values; "
                   "log2: the window [2^k-140, 2^k+3] around every power of two + random values. Each recorded (bits, target, work) / (n, r) line is validated by TLC against "
                   "Compact.tla over arbitrary-precision naturals written in TLA+ (BigNat.tla): exact target, defining inequality of floor(2^256/(t+1)), antitone work between neighbours; "
                   "distinct = distinct inputs recorded" % nrand,
           "samples": samples[:4], "tlc_states": sum(r.distinct for r in runs), "vectors": stats}
    return {"violations": viol, "known": [], "notes": [], "level": "exploration", "coverage": cov,
            "assumptions": ["TLC and the Json module are trusted; the reference arithmetic is spec/BigNat.tla + spec/Compact.tla, not Go code",
                            "the 2^32 domain is sampled (structured lattice + random), not enumerated: TLC cannot enumerate it"]}


def c14(tier, seed, replay_path=None):
    binary = fc.build()
    d = c.sub("gen")
    cfg = os.path.join(d, "wire.cfg")
    c.write_cfg(cfg, "WSpec", {}, ["RoundTrip", "HostileRejected", "AllocationBounded", "EmitInv"])
    raw = os.path.join(d, "C14.out")
    r = c.run_tlc("MC_Wire", cfg, workers=1, out_file=raw)
    if not r.ok:
        c.tlc_must_pass(r, "MC_Wire")
    tbl = os.path.join(d, "C14.table.json")
    if c.unquote_lines(raw, tbl, limit=1) != 1:
        raise c.Infra("frame-class table was not emitted")
    nrows = len(json.load(open(tbl))["rows"])
    inst = 3 if tier == "quick" else 40
    nsh = 8 if tier == "quick" else 16
    procs = []
    env = c.go_env()
    for i in range(nsh):
        sd = c.sub("wire%02d" % i)
        e = dict(env)
        e.update({"VERIF_OP": "wire", "VERIF_IN": tbl, "VERIF_OUT": os.path.join(sd, "res"), "VERIF_SEED": str(seed), "VERIF_INSTANCES": str(inst),
                  "VERIF_SHARD": str(i), "VERIF_NSHARD": str(nsh), "VERIF_RAW": str(1500 if tier == "quick" else 40000)})
        procs.append((sd, c.FileProc([binary, "-test.run", "^TestHarness$", "-test.timeout", "0"], e, sd)))
    aggs = []
    for sd, pr in procs:
        so, se = pr.communicate(timeout=3400)
        if pr.returncode != 0 or not os.path.exists(os.path.join(sd, "res")):
            # a crash of the decoder outside the watchdog (e.g. fatal error: out of memory) is an observation about the code
            # - but only when the failing goroutine was inside the codec (or the runtime ran out of memory): a panic of the
            # harness itself is a harness failure
            i = max(se.find("fatal error"), se.find("panic:"))
            first_stack = se[i:].split("\n\ngoroutine", 2)[0] + se[i:].split("\n\n", 2)[1] if i >= 0 and "\n\n" in se[i:] else se[i:]
            in_codec = "internal/wire." in first_stack.split("verifh/chain.opWire")[0] or "out of memory" in se[i:i + 300]
            if i >= 0 and in_codec:
                return {"violations": [("wire decoder crashed the process: %s" % se[i:i + 600], {"family": "wire", "stderr": se[i:i + 3000]})], "known": [], "notes": [],
                        "level": "exploration", "coverage": {"evaluations": 1, "distinct_nontrivial": 2, "rule": "crash", "samples": ["crash"]}, "assumptions": []}
            raise c.Infra("wire harness failed: %s" % se[-1500:])
        res = json.load(open(os.path.join(sd, "res")))
        aggs.append({"behaviours": 0, "steps": res["steps"], "queries": res["queries"], "mismatches": res.get("mismatches") or [], "samples": res.get("samples") or [],
                     "crashed": [], "stats": res.get("stats") or {}, "dev_used": {}})
    agg = merge(aggs)
    agg["behaviours"] = nrows
    if agg["stats"].get("roundtrips", 0) < 30 or agg["queries"] < nrows:
        raise c.Infra("vacuous run: %s" % dict(agg["stats"]))
    v = simple_verdict("C14", agg, [r], {"rows": nrows, "instances_per_row": inst, "exhaustive": False,
                       "rule": "every buildable combination of frame classes (header, magic, command, declared length, checksum, payload mutation) x the 18 message kinds from Wire.tla "
                               "(emitted by TLC), several seeded concrete frames each at three protocol versions; valid frames are round-tripped (decoded value equality incl. times, "
                               "byte-identical re-encoding); plus raw random bytes and random mutations (bit flips, truncation, splicing) of valid frames under a watchdog with allocation accounting"})
    v["level"] = "exploration"
    v["coverage"]["evaluations"] = agg["queries"] + agg["stats"].get("raw", 0)
    v["coverage"]["distinct_nontrivial"] = nrows
    v["assumptions"] = ["the specification enumerates CLASSES of frames; arbitrary mutated byte strings are sampled, not enumerated (a coverage-guided fuzzer is outside this technique family)",
                        "allocation bound checked: a single decode may allocate at most twice the declared payload length plus 8 MB (nothing but 8 MB when the declared length exceeds a limit)"]
    for f in c.findings_for("C14"):
        v["known"].append(f["what"])
    return v


RIG = dict(name="p2prig", pkg_rel="transports/p2p", virtual_pkgs={"chain": "internal/verifh/chain"}, inpkg={"p2p": "transports/p2p"})


def build_rig(race=False):
    return c.build_harness(race=race, **RIG)


def tlc_admission(consts, invariants, properties=(), view="AdView", emit_file=None, simulate=None, depth=None, seed=None, timeout=1800):
    d = c.sub("cfg")
    cfg = os.path.join(d, "adm_%d.cfg" % random.randrange(1 << 30))
    c.write_cfg(cfg, "MAdSpec", consts, invariants, properties, view=view, extra=["CONSTANT Hosts <- HostsV", "CONSTANT GroupOf <- GroupV"])
    r = c.run_tlc("MC_Admission", cfg, timeout=timeout, out_file=emit_file, simulate=simulate, depth=depth, seed=seed, workers=1 if simulate else None)
    if not r.ok and not simulate:
        c.tlc_must_pass(r, "MC_Admission")
    return r


PL_INV = ["BooksReturnToZero", "OneEntryPerConnection", "CountersMatchMaps", "ReadyMeansNegotiated", "OneVersionPerConnection", "NeverNegative"]


def peerlife_run(rigbin, tier, seed, only=None):
    """PeerLife.tla: socket -> negotiation -> newPeers/donePeers -> handlers, the select taking either channel first."""
    d = c.sub("peerlife")
    runs = []

    def consts(nc, mm, steps, findings="{}", emit="none"):
        return {"Conns": "ConnsV", "DirOf": "DirV", "HostOf": "HostV", "GroupOf": "GroupV", "MaxMsgs": mm, "MaxPerHost": 5, "Findings": findings,
                "Emit": '"%s"' % emit, "NConns": nc, "MaxSteps": steps}

    def cfgfile(name, k, inv, view="View"):
        path = os.path.join(d, name)
        with open(path, "w") as f:
            f.write("SPECIFICATION MSpec\nCONSTANTS\n")
            for a, b in k.items():
                f.write("  %s %s %s\n" % (a, "<-" if a in ("Conns", "DirOf", "HostOf", "GroupOf") else "=", b))
            if view:
                f.write("VIEW %s\n" % view)
            f.write("INVARIANTS\n  %s\nCHECK_DEADLOCK FALSE\n" % "\n  ".join(inv))
        return path
    path = os.path.join(d, "peerlife.jsonl")
    if only is None:
        big = (2, 3, 16) if tier == "quick" else (3, 3, 22)
        runs.append(c.tlc_must_pass(c.run_tlc("MC_PeerLife", cfgfile("ideal.cfg", consts(*big), PL_INV), workers=c.NCPU), "MC_PeerLife"))
        # the model must be able to SEE the two defects the repaired code no longer has
        for f, inv in (("dup-in-negotiation", "OneVersionPerConnection"), ("add-after-done", "BooksReturnToZero")):
            r0 = c.run_tlc("MC_PeerLife", cfgfile("dev.cfg", consts(2, 3, 14, findings=c.tla_set([f])), [inv]), workers=4)
            if r0.ok or not r0.violation:
                raise c.Infra("model sensitivity lost: PeerLife.tla following %s no longer violates %s" % (f, inv))
        raw = os.path.join(d, "peerlife.out")
        gens = [(1, 3, 9), (2, 2, 12)] if tier == "quick" else [(1, 3, 9), (2, 2, 12), (2, 3, 16)]
        lines = []
        for nc, mm, steps in gens:
            r = c.run_tlc("MC_PeerLife", cfgfile("gen.cfg", consts(nc, mm, steps, emit="paths"), ["EmitInv"], view=None), workers=1, out_file=raw)
            c.tlc_must_pass(r, "MC_PeerLife")
            runs.append(r)
            allp = os.path.join(d, "all.jsonl")
            c.unquote_lines(raw, allp)
            lines.append(sorted(set(open(allp).read().splitlines())))
        rng = random.Random(seed)
        want = 2500 if tier == "quick" else 40000
        picked = []
        for ls in lines:
            share = want // len(lines)
            picked += ls if len(ls) <= share else rng.sample(ls, share)
        with open(path, "w") as f:
            f.write("\n".join(picked) + "\n")
        c.log("  gen peerlife: %d behaviours (of %s emitted)" % (len(picked), [len(x) for x in lines]))
    else:
        picked = [json.dumps(only)]
        with open(path, "w") as f:
            f.write(picked[0] + "\n")
    agg = fc.replay(rigbin, path, seed, op="peerlife", nproc=1 if only else 8)
    return runs, agg


def addrpick_run(chainbin):
    """AddrPick.tla: the table of draw sequences -> p2putil.NewAddressFunc."""
    d = c.sub("addrpick")
    cfg = os.path.join(d, "ap.cfg")
    c.write_cfg(cfg, "APSpec", {}, ["NeverAConnectedGroup", "RecentOnlyAfter30", "OtherPortOnlyAfter50", "KeepsDrawing", "AtMostHundredDraws", "EmitInv"])
    raw = os.path.join(d, "ap.out")
    r = c.tlc_must_pass(c.run_tlc("MC_AddrPick", cfg, workers=1, out_file=raw), "MC_AddrPick")
    tbl = os.path.join(d, "ap.table.json")
    if c.unquote_lines(raw, tbl, limit=1) != 1:
        raise c.Infra("address-pick table was not emitted")
    out = os.path.join(d, "ap.res")
    p = c.run_harness(chainbin, {"VERIF_OP": "addrpick", "VERIF_IN": tbl, "VERIF_OUT": out}, cwd=d)
    if p.returncode != 0 or not os.path.exists(out):
        raise c.Infra("addrpick harness failed: %s" % p.stderr[-1500:])
    res = json.load(open(out))
    if res["behaviours"] < 3000 or (res.get("stats") or {}).get("ok:true", 0) == 0 or (res.get("stats") or {}).get("ok:false", 0) == 0:
        raise c.Infra("vacuous addrpick run: %s" % res.get("stats"))
    c.log("  addrpick: %d rows, %d mismatches" % (res["behaviours"], len(res.get("mismatches") or [])))
    return r, res


def c18(tier, seed, replay_path=None):
    rigbin = build_rig()
    if replay_path and json.load(open(replay_path))["case"].get("family") == "api" and (json.load(open(replay_path))["case"].get("mismatch") or {}).get("kind") == "peerlife":
        runs, agg = peerlife_run(rigbin, tier, seed, only=json.load(open(replay_path))["case"]["behaviour"])
        return simple_verdict("C18", agg, [])
    rng = random.Random(seed)
    runs = []
    # design: small constants, exhaustive
    runs.append(tlc_admission({"NHosts": 3, "MaxPeers": 3, "MaxPerHost": 2, "MaxSteps": 7 if tier == "quick" else 9, "MaxAdv": 9, "Emit": '"none"', "FillFirst": 0},
                              ["TotalAtMostMaxPeers", "PerHostAtMostLimit", "CountersReturnToZero"], ["NoAdmissionWhileBanned", "AdmittedAgainAfterExpiry"]))
    # conformance: the specification at the code's own constants (125 peers, 5 per host), simulated
    d = c.sub("gen")
    # (tag, hosts, depth, behaviours, fill-first): "full" is steered - connection attempts only until the table has held
    # all 125 peers, then anything: everything that happens AT the total limit (refusals, leaving peers, returning hosts)
    plans = [("few", 2, 36, 40 if tier == "quick" else 600, 0), ("many", 30, 300 if tier == "quick" else 420, 4 if tier == "quick" else 60, 0),
             ("full", 30, 190, 4 if tier == "quick" else 60, 125)]
    aggs, gen = [], {}
    for tag, nh, depth, num, fill in plans:
        raw = os.path.join(d, "C18%s.out" % tag)
        r = tlc_admission({"NHosts": nh, "MaxPeers": 125, "MaxPerHost": 5, "MaxSteps": depth, "MaxAdv": 3, "Emit": '"paths"', "FillFirst": fill}, ["EmitInv"], view=None, emit_file=raw,
                          simulate="num=%d" % num, depth=depth + 1, seed=seed)
        runs.append(r)
        out = os.path.join(d, "C18%s.jsonl" % tag)
        n = c.unquote_lines(raw, out)
        os.unlink(raw)
        if n == 0:
            raise c.Infra("no admission behaviours generated (%s): %s" % (tag, r.out[-800:]))
        if n > num:
            keep = set(rng.sample(range(n), num))
            with open(out) as fi, open(out + ".s", "w") as fo:
                for i, line in enumerate(fi):
                    if i in keep:
                        fo.write(line)
            os.replace(out + ".s", out)
        gen[tag] = {"behaviours": min(n, num), "hosts": nh, "depth": depth}
        c.log("  gen C18%s: %d behaviours" % (tag, min(n, num)))
        aggs.append(fc.replay(rigbin, out, seed, op="admission", nproc=8))
    # ---- the life of a connection: negotiation, the two channels, the select taking either first (PeerLife.tla)
    pruns, pagg = peerlife_run(rigbin, tier, seed)
    runs += pruns
    aggs.append(pagg)
    # the same on the RUNNING server: peerHandler kept busy by a query while a remote connects, sends its version and leaves;
    # afterwards a well-behaved node from that address must be admitted (nobody from there is connected)
    gd = c.sub("ghost")
    ghost = None
    for attempt in range(2):
        gp = c.run_harness(rigbin, {"VERIF_OP": "ghost", "VERIF_OUT": os.path.join(gd, "o.json"), "VERIF_DB": os.path.join(gd, "g%d.db" % attempt),
                                    "VERIF_ROUNDS": 24 if tier == "quick" else 120}, cwd=gd, timeout=900)
        if gp.returncode != 0 or not os.path.exists(os.path.join(gd, "o.json")):
            raise c.Infra("ghost run failed: %s" % gp.stderr[-1500:])
        ghost = json.load(open(os.path.join(gd, "o.json")))
        os.unlink(os.path.join(gd, "o.json"))
        if ghost["admitted"] or attempt == 1:
            break
    if ghost["both_queued"] < ghost["rounds"] // 2:
        raise c.Infra("vacuous ghost run: announcement and departure were queued together in only %d of %d visits" % (ghost["both_queued"], ghost["rounds"]))
    c.log("  ghost: %s" % ghost)
    agg = merge(aggs)
    if not ghost["admitted"]:
        agg["mismatches"].append({"kind": "peerlife-running-server", "step": 0, "shard": None, "line": None,
                                  "exp": "after %d short visits from 127.0.0.77 (announcement and departure queued together in %d of them) a well-behaved node from that address is admitted: "
                                         "the service counts %d connected peers" % (ghost["rounds"], ghost["both_queued"], ghost["connected_count"]),
                                  "got": "refused, twice in two runs: " + ghost["reason"]})
    if agg["stats"].get("ev:procadd", 0) == 0 or agg["stats"].get("ev:procdone", 0) == 0 or agg["stats"].get("ev:msg", 0) == 0:
        raise c.Infra("vacuous peerlife run: %s" % dict(agg["stats"]))
    # ---- connection manager: design (ConnMgr.tla) and recorded executions of the real one (Trace_ConnMgr.tla)
    d2 = c.sub("cfg")
    cmcfg = os.path.join(d2, "connmgr.cfg")
    cm_consts = {"Target": 2, "BanAt": 2, "Addrs": c.tla_set(["a", "b", "c", "d"]), "MaxFails": 4 if tier == "quick" else 5, "MaxDisc": 2, "Deviations": "{}", "GMax": 2, "MaxDrought": 1}
    c.write_cfg(cmcfg, "CmSpec", cm_consts, ["OpenAtMostTarget", "LiveAtMostTarget", "SlotsNeverLost"], ["BackToTarget"])
    runs.append(c.tlc_must_pass(c.run_tlc("ConnMgr", cmcfg, workers=c.NCPU), "ConnMgr"))
    cm_consts["Deviations"] = c.tla_set(["BanLosesSlot"])
    c.write_cfg(cmcfg, "CmSpec", cm_consts, ["SlotsNeverLost"], [])
    r0 = c.run_tlc("ConnMgr", cmcfg, workers=4)
    if r0.ok or not r0.violation:
        raise c.Infra("model sensitivity lost: ConnMgr.tla with the BanLosesSlot deviation no longer violates SlotsNeverLost")
    cm_consts["Deviations"] = c.tla_set(["TimersCoalesce"])
    c.write_cfg(cmcfg, "CmSpec", cm_consts, ["SlotsNeverLost"], [])
    r1 = c.run_tlc("ConnMgr", cmcfg, workers=4)
    if r1.ok or not r1.violation:
        raise c.Infra("model sensitivity lost: ConnMgr.tla with the TimersCoalesce deviation no longer violates SlotsNeverLost")
    chainbin = fc.build()
    # ---- which address is dialled next (AddrPick.tla -> p2putil.NewAddressFunc)
    apr, apres = addrpick_run(chainbin)
    runs.append(apr)
    for m in apres.get("mismatches") or []:
        agg["mismatches"].append({"kind": "addrpick", "step": 0, "shard": None, "line": None, "exp": m["exp"], "got": m["got"]})
    agg["behaviours"] += apres["behaviours"]
    viol_cm, events, cmstats = [], 0, {}
    nsh, nsc = (4, 12) if tier == "quick" else (16, 60)
    procs = []
    env = c.go_env()
    for i in range(nsh):
        sd = c.sub("connmgr%02d" % i)
        e = dict(env)
        e.update({"VERIF_OP": "connmgr", "VERIF_OUT": os.path.join(sd, "connmgr_trace.ndjson"), "VERIF_SEED": str(seed * 100 + i), "VERIF_SCENARIOS": str(nsc)})
        procs.append((sd, c.FileProc([chainbin, "-test.run", "^TestHarness$", "-test.timeout", "0"], e, sd)))
    tcfg = os.path.join(d2, "connmgr_trace.cfg")
    c.write_cfg(tcfg, "TraceSpec", {}, ["OpenAtMostTarget"], (), extra=["POSTCONDITION TraceAccepted"])
    for sd, pr in procs:
        so, se = pr.communicate(timeout=3000)
        if pr.returncode != 0:
            raise c.Infra("connmgr recorder failed: %s" % se[-1500:])
        for k, val in json.load(open(os.path.join(sd, "connmgr_trace.ndjson.stats"))).items():
            cmstats[k] = cmstats.get(k, 0) + val
        f = os.path.join(sd, "connmgr_trace.ndjson")
        r = c.run_tlc("Trace_ConnMgr", tcfg, workers=1, extra_files=[f])
        lines = open(f).read().splitlines()
        events += len(lines)
        runs.append(r)
        if not r.ok:
            if "TraceAccepted" in r.out or "ostcondition" in r.out or "is violated" in r.out:
                k = max(0, r.distinct - 1)
                st0 = k
                while st0 > 0 and '"ev":"start"' not in lines[st0]:
                    st0 -= 1
                viol_cm.append(("connection manager execution rejected by Trace_ConnMgr.tla at event %d: %s (scenario %s)" % (k + 1, lines[k][:200] if k < len(lines) else "?", lines[st0][:80]),
                                {"family": "connmgr-trace", "events": lines[st0:k + 1][-120:]}))
            else:
                raise c.Infra("Trace_ConnMgr TLC failure: " + r.out[-1500:])
    if cmstats.get("bans", 0) == 0 or cmstats.get("disconnects", 0) == 0 or cmstats.get("quiesce", 0) == 0:
        raise c.Infra("vacuous connmgr run: %s" % cmstats)
    st = agg["stats"]
    if st.get("op:add", 0) == 0 or st.get("op:ban", 0) == 0 or st.get("op:done", 0) == 0 or st.get("op:advance", 0) == 0:
        raise c.Infra("vacuous run: %s" % dict(st))
    v = simple_verdict("C18", agg, runs, {"generation": gen, "exhaustive": False,
                       "rule": "event sequences add(in|out|persistent, host) / done / ban / clock-advance simulated by TLC from Admission.tla at the code's constants (125 peers, 5 per host); "
                               "replayed on the real handleAddPeerMsg / handleDonePeerMsg / handleBanPeerMsg with really-handshaken peers; after every step the return value, Connected() "
                               "and the per-host, per-group and total counters are compared"})
    v["violations"] += viol_cm
    v["coverage"]["connmgr"] = {"recorded_events_validated": events, "stats": cmstats, "targets": "1..8", "retry_interval_ms": 1,
                                "model_sensitivity": "ConnMgr.tla with BanLosesSlot violates SlotsNeverLost (%d states)" % r0.distinct}
    v["coverage"]["traces_validated_against_impl"] += cmstats.get("scenarios", 0)
    v["assumptions"] = ["persistent peers are exempt from the per-host counter (as in the code); they count towards the total and the outbound groups",
                        "ban expiry uses a 150 ms ban duration and real sleeps; a step whose expected refusal is asked later than 60% into the ban is abandoned as timing-unreliable, never reported",
                        "TLC, Json module and the Go toolchain are trusted"]
    return v


CHECKS = {"C19": c19, "C14": c14, "C18": c18}
