"""API family: C09 (auth mediation), C10 (token life-cycle), C12 (webhooks), C16 (error answers), C20 (configuration)."""
import json, os, random
import common as c
import fam_chain as fc
from checks_chain import ASSUME

API_ASSUME = ["SQLite engine only", "requests go through the production gin engine (httpserver.NewHTTPServer + endpoints.SetupRoutes) via ServeHTTP",
              "TLC, the Json module, SQLite and the Go toolchain are trusted"]


def simple_verdict(prop, agg, runs, extra=None, kinds=None, level="model_checking"):
    if agg["crashed"]:
        raise c.Infra("harness process died: %s" % json.dumps(agg["crashed"])[:2000])
    viol, seen = [], set()
    for m in agg["mismatches"]:
        if kinds and m["kind"] not in kinds:
            continue
        key = (m.get("shard"), m.get("line"), m["kind"], m["exp"][:80])
        if key in seen:
            continue
        seen.add(key)
        beh = fc.behaviour_at(m["shard"], m["line"]) if m.get("shard") and os.path.exists(m["shard"]) else None
        viol.append(("%s at step %s: expected %s, got %s" % (m["kind"], m.get("step"), m["exp"], m["got"]),
                     {"family": "api", "behaviour": beh, "mismatch": {k: m[k] for k in ("kind", "step", "exp", "got") if k in m}}))
    cov = {"states": sum(r.distinct for r in runs), "transitions": sum(r.generated for r in runs),
           "traces_validated_against_impl": agg["behaviours"], "steps_replayed": agg["steps"], "checks_compared": agg["queries"],
           "samples": [_s(x) for x in agg["samples"][:3]] or ["none"], "stats": dict(agg["stats"])}
    if extra:
        cov.update(extra)
    return {"violations": viol, "known": [], "notes": [], "level": level, "coverage": cov, "assumptions": API_ASSUME}


def _s(x):
    try:
        return json.loads(x)
    except Exception:
        return x[:1500]


def tlc_access(consts, invariants, properties=(), view="AView", emit_file=None, timeout=1800):
    d = c.sub("cfg")
    cfg = os.path.join(d, "acc_%d.cfg" % random.randrange(1 << 30))
    c.write_cfg(cfg, "MASpec", consts, invariants, properties, view=view)
    r = c.run_tlc("MC_Access", cfg, timeout=timeout, out_file=emit_file)
    if not r.ok:
        c.tlc_must_pass(r, "MC_Access")
    return r


def c10(tier, seed, replay_path=None):
    binary = fc.build()
    env = {"VERIF_WS": "1" if tier == "thorough" else os.environ.get("VERIF_WS", "0")}
    if replay_path:
        payload = json.load(open(replay_path))
        p = os.path.join(c.sub("replay"), "one.jsonl")
        open(p, "w").write(json.dumps(payload["case"]["behaviour"]) + "\n")
        return simple_verdict("C10", fc.replay(binary, p, payload.get("seed", seed), nproc=1, op="access", extra_env={"VERIF_WS": "1"}), [])
    rng = random.Random(seed)
    runs = [tlc_access({"MaxTokens": 3, "MaxSteps": 7, "Emit": '"none"'},
                       ["AdminAlways", "RevokedNeverValid", "NeverIssuedNotValid"], ["RevocationIsForEver", "OthersUnaffected", "RejectedChangesNothing"])]
    d = c.sub("gen")
    aggs, gen = [], {}
    plan = [("a", 2, 5, 12000)] if tier == "quick" else [("a", 2, 5, None), ("b", 2, 6, 150000), ("c", 3, 5, 100000)]
    for tag, mt, ms, sample in plan:
        raw = os.path.join(d, "C10%s.out" % tag)
        r = tlc_access({"MaxTokens": mt, "MaxSteps": ms, "Emit": '"paths"'}, ["EmitInv"], view=None, emit_file=raw)
        runs.append(r)
        out = os.path.join(d, "C10%s.jsonl" % tag)
        n = c.unquote_lines(raw, out)
        os.unlink(raw)
        if sample and n > sample:
            keep = set(rng.sample(range(n), sample))
            with open(out) as fi, open(out + ".s", "w") as fo:
                for i, line in enumerate(fi):
                    if i in keep:
                        fo.write(line)
            os.replace(out + ".s", out)
        gen[tag] = {"histories": n, "replayed": min(n, sample or n), "MaxTokens": mt, "MaxSteps": ms}
        c.log("  gen C10%s: %d histories" % (tag, n))
        aggs.append(fc.replay(binary, out, seed, op="access", extra_env=env))
    # a small websocket pass in the quick tier: real centrifuge client against the real websocket server
    if tier == "quick":
        small = os.path.join(d, "C10ws.jsonl")
        with open(os.path.join(d, "C10a.jsonl")) as fi, open(small, "w") as fo:
            for i, line in enumerate(fi):
                if i % 40 == 0:
                    fo.write(line)
        aggs.append(fc.replay(binary, small, seed, op="access", extra_env={"VERIF_WS": "1"}, nproc=8))
    from checks_chain import merge
    agg = merge(aggs)
    st = agg["stats"]
    if st.get("op:create", 0) == 0 or st.get("op:revoke", 0) == 0 or st.get("op:restart", 0) == 0:
        raise c.Infra("vacuous run: %s" % dict(st))
    return simple_verdict("C10", agg, runs, {"generation": gen, "exhaustive": tier != "quick",
                                             "rule": "every sequence of create(as admin|user|unknown) / revoke(as admin|user, any token incl. unknown, admin, already revoked) / restart "
                                                     "of the given length from Access.tla; after EVERY step EVERY token (admin, issued, revoked, never issued) is presented on two routes"})


def c09(tier, seed, replay_path=None):
    binary = fc.build()
    runs = [tlc_access({"MaxTokens": 2, "MaxSteps": 3, "Emit": '"none"'}, ["NoApiHandlerWithoutValidToken", "AdminOnlyForTokenMgmt", "AuthOffOpens"])]
    d = c.sub("gen")
    raw = os.path.join(d, "C09.out")
    r = tlc_access({"MaxTokens": 1, "MaxSteps": 0, "Emit": '"table"'}, ["EmitInv"], view=None, emit_file=raw)
    runs.append(r)
    tbl = os.path.join(d, "C09.table.json")
    if c.unquote_lines(raw, tbl, limit=1) != 1:
        raise c.Infra("decision table was not emitted")
    dbd = c.sub("c09db")
    out = os.path.join(d, "C09.res")
    p = c.run_harness(binary, {"VERIF_OP": "routes", "VERIF_IN": tbl, "VERIF_OUT": out, "VERIF_DB": os.path.join(dbd, "r.db"), "VERIF_SEED": seed}, cwd=dbd)
    if p.returncode != 0 or not os.path.exists(out):
        raise c.Infra("routes harness failed: %s %s" % (p.stdout[-1500:], p.stderr[-1500:]))
    res = json.load(open(out))
    agg = {"behaviours": res["behaviours"], "steps": 0, "queries": res["queries"], "mismatches": res.get("mismatches") or [], "samples": res.get("samples") or [],
           "crashed": [], "stats": res.get("stats") or {}}
    if agg["stats"].get("route:ApiUser", 0) < 10 or agg["stats"].get("route:ApiAdmin", 0) < 2:
        raise c.Infra("vacuous run: routing table not enumerated: %s" % agg["stats"])
    v = simple_verdict("C09", agg, runs, {"rule": "gin Engine.Routes() enumerated at run time x the decision table emitted by TLC from Access.tla (8 credential classes x use_auth) "
                                                  "x profiling on/off; routes outside /api/v1 must be status, swagger, metrics, pprof or the websocket upgrade",
                                          "exhaustive": True})
    return v


CHECKS = {"C09": c09, "C10": c10}
