"""API family: C09 (auth mediation), C10 (token life-cycle), C12 (webhooks), C16 (error answers), C20 (configuration)."""
import json, os, random
import common as c
import fam_chain as fc
from checks_chain import ASSUME

API_ASSUME = ["SQLite engine only", "requests go through the production gin engine (httpserver.NewHTTPServer + endpoints.SetupRoutes) via ServeHTTP",
              "TLC, the Json module, SQLite and the Go toolchain are trusted"]


def simple_verdict(prop, agg, runs, extra=None, kinds=None, level="model_checking"):
    if agg["crashed"]:
        raise c.Infra("harness process died: %s" % json.dumps(agg["crashed"])[:2000])
    viol, seen = [], set()
    for m in agg["mismatches"]:
        if kinds and m["kind"] not in kinds:
            continue
        key = (m.get("shard"), m.get("line"), m["kind"], m["exp"][:80])
        if key in seen:
            continue
        seen.add(key)
        beh = fc.behaviour_at(m["shard"], m["line"]) if m.get("shard") and os.path.exists(m["shard"]) else None
        viol.append(("%s at step %s: expected %s, got %s" % (m["kind"], m.get("step"), m["exp"], m["got"]),
                     {"family": "api", "behaviour": beh, "mismatch": {k: m[k] for k in ("kind", "step", "exp", "got") if k in m}}))
    cov = {"states": sum(r.distinct for r in runs), "transitions": sum(r.generated for r in runs),
           "traces_validated_against_impl": agg["behaviours"], "steps_replayed": agg["steps"], "checks_compared": agg["queries"],
           "samples": [_s(x) for x in agg["samples"][:3]] or ["none"], "stats": dict(agg["stats"])}
    if extra:
        cov.update(extra)
    return {"violations": viol, "known": [], "notes": [], "level": level, "coverage": cov, "assumptions": API_ASSUME}


def _s(x):
    try:
        return json.loads(x)
    except Exception:
        return x[:1500]


def tlc_access(consts, invariants, properties=(), view="AView", emit_file=None, timeout=1800, simulate=None, depth=None, seed=None):
    d = c.sub("cfg")
    cfg = os.path.join(d, "acc_%d.cfg" % random.randrange(1 << 30))
    c.write_cfg(cfg, "MASpec", consts, invariants, properties, view=view)
    r = c.run_tlc("MC_Access", cfg, timeout=timeout, out_file=emit_file, simulate=simulate, depth=depth, seed=seed, workers=1 if simulate else None)
    if not r.ok and not simulate:
        c.tlc_must_pass(r, "MC_Access")
    return r


def _startup_replay(binary, tier, seed, replay_path, kind):
    from checks_steps import startup_run
    runs, viol, cov = startup_run(binary, tier, seed, only=json.load(open(replay_path))["case"]["behaviour"], kinds=(kind,))
    return {"violations": viol, "known": [], "notes": [], "level": "model_checking", "coverage": {"states": 1, "transitions": 1, "traces_validated_against_impl": 1, "samples": ["startup"]}, "assumptions": []}


def _with_startup(v, binary, tier, seed, kind, prop):
    """Startup.tla: what the property's table holds survives a start on a database of ANY schema version."""
    from checks_steps import startup_run
    sruns, sviol, scov = startup_run(binary, tier, seed, kinds=(kind,))
    v["coverage"]["startup"] = scov
    v["coverage"]["states"] += sum(r.distinct for r in sruns)
    v["coverage"]["transitions"] += sum(r.generated for r in sruns)
    v["coverage"]["traces_validated_against_impl"] += scov["behaviours"]
    v["violations"] += sviol
    return v


def c10(tier, seed, replay_path=None):
    binary = fc.build()
    env = {"VERIF_WS": "1" if tier == "thorough" else os.environ.get("VERIF_WS", "0")}
    if replay_path and json.load(open(replay_path))["case"].get("family") == "startup":
        return _startup_replay(binary, tier, seed, replay_path, "startup-token")
    if replay_path:
        payload = json.load(open(replay_path))
        p = os.path.join(c.sub("replay"), "one.jsonl")
        open(p, "w").write(json.dumps(payload["case"]["behaviour"]) + "\n")
        return simple_verdict("C10", fc.replay(binary, p, payload.get("seed", seed), nproc=1, op="access", extra_env={"VERIF_WS": "1"}), [])
    rng = random.Random(seed)
    runs = [tlc_access({"MaxTokens": 3, "MaxSteps": 7, "Emit": '"none"'},
                       ["AdminAlways", "RevokedNeverValid", "NeverIssuedNotValid"], ["RevocationIsForEver", "OthersUnaffected", "RejectedChangesNothing"])]
    d = c.sub("gen")
    aggs, gen = [], {}
    # (tag, MaxTokens, MaxSteps, sample, simulated behaviours): exhaustive paths for short sequences, TLC simulation for long ones
    plan = [("a", 2, 4, 9000, None), ("s", 2, 7, 3000, 1500)] if tier == "quick" else \
        [("a", 2, 4, None, None), ("b", 2, 5, 150000, None), ("s", 3, 9, 40000, 20000)]
    for tag, mt, ms, sample, sim in plan:
        raw = os.path.join(d, "C10%s.out" % tag)
        r = tlc_access({"MaxTokens": mt, "MaxSteps": ms, "Emit": '"paths"'}, ["EmitInv"], view=None, emit_file=raw,
                       simulate=("num=%d" % sim) if sim else None, depth=ms + 1 if sim else None, seed=seed if sim else None)
        runs.append(r)
        out = os.path.join(d, "C10%s.jsonl" % tag)
        n = c.unquote_lines(raw, out)
        os.unlink(raw)
        if sample and n > sample:
            keep = set(rng.sample(range(n), sample))
            with open(out) as fi, open(out + ".s", "w") as fo:
                for i, line in enumerate(fi):
                    if i in keep:
                        fo.write(line)
            os.replace(out + ".s", out)
        gen[tag] = {"histories": n, "replayed": min(n, sample or n), "MaxTokens": mt, "MaxSteps": ms}
        c.log("  gen C10%s: %d histories" % (tag, n))
        aggs.append(fc.replay(binary, out, seed, op="access", extra_env=env))
    # a small websocket pass in the quick tier: real centrifuge client against the real websocket server
    if tier == "quick":
        small = os.path.join(d, "C10ws.jsonl")
        with open(os.path.join(d, "C10a.jsonl")) as fi, open(small, "w") as fo:
            for i, line in enumerate(fi):
                if i % 40 == 0:
                    fo.write(line)
        aggs.append(fc.replay(binary, small, seed, op="access", extra_env={"VERIF_WS": "1"}, nproc=8))
    # a create and a revoke whose COMMIT is held up beyond the busy timeout by a reader on another connection (one process, ~12 s)
    one = os.path.join(d, "C10commit.jsonl")
    with open(os.path.join(d, "C10a.jsonl")) as fi, open(one, "w") as fo:
        fo.write(fi.readline())
    aggs.append(fc.replay(binary, one, seed, op="access", extra_env={"VERIF_COMMITFAULT": "1"}, nproc=1))
    from checks_chain import merge
    agg = merge(aggs)
    st = agg["stats"]
    if st.get("commitfault-create", 0) + st.get("commitfault-revoke", 0) == 0:
        raise c.Infra("the commit failure was not injected: %s" % {k: v for k, v in st.items() if k.startswith("commitfault")})
    if st.get("op:create", 0) == 0 or st.get("op:revoke", 0) == 0 or st.get("op:restart", 0) == 0 or st.get("op:rotate", 0) == 0:
        raise c.Infra("vacuous run: %s" % dict(st))
    return _with_startup(simple_verdict("C10", agg, runs, {"generation": gen, "exhaustive": tier != "quick",
                                             "rule": "every sequence of create(as admin|former or future admin|user|unknown|admin-prefix) / revoke(as admin|user|admin+suffix, any token incl. unknown, admin, "
                                                     "already revoked) / restart / rotation of the configured admin token, of the given length from Access.tla (simulated beyond); after EVERY step "
                                                     "EVERY token (both admin tokens, issued, revoked, never issued, a proper prefix and an extension of the admin token) is presented on two routes"}),
                         binary, tier, seed, "startup-token", "C10")


def c09(tier, seed, replay_path=None):
    binary = fc.build()
    runs = [tlc_access({"MaxTokens": 2, "MaxSteps": 3, "Emit": '"none"'}, ["NoApiHandlerWithoutValidToken", "AdminOnlyForTokenMgmt", "AuthOffOpens"])]
    d = c.sub("gen")
    raw = os.path.join(d, "C09.out")
    r = tlc_access({"MaxTokens": 1, "MaxSteps": 0, "Emit": '"table"'}, ["EmitInv"], view=None, emit_file=raw)
    runs.append(r)
    tbl = os.path.join(d, "C09.table.json")
    if c.unquote_lines(raw, tbl, limit=1) != 1:
        raise c.Infra("decision table was not emitted")
    dbd = c.sub("c09db")
    out = os.path.join(d, "C09.res")
    p = c.run_harness(binary, {"VERIF_OP": "routes", "VERIF_IN": tbl, "VERIF_OUT": out, "VERIF_DB": os.path.join(dbd, "r.db"), "VERIF_SEED": seed}, cwd=dbd)
    if p.returncode != 0 or not os.path.exists(out):
        raise c.Infra("routes harness failed: %s %s" % (p.stdout[-1500:], p.stderr[-1500:]))
    res = json.load(open(out))
    agg = {"behaviours": res["behaviours"], "steps": 0, "queries": res["queries"], "mismatches": res.get("mismatches") or [], "samples": res.get("samples") or [],
           "crashed": [], "stats": res.get("stats") or {}}
    if agg["stats"].get("route:ApiUser", 0) < 10 or agg["stats"].get("route:ApiAdmin", 0) < 2:
        raise c.Infra("vacuous run: routing table not enumerated: %s" % agg["stats"])
    v = simple_verdict("C09", agg, runs, {"rule": "gin Engine.Routes() enumerated at run time x the decision table emitted by TLC from Access.tla (8 credential classes x use_auth) "
                                                  "x profiling on/off; routes outside /api/v1 must be status, swagger, metrics, pprof or the websocket upgrade",
                                          "exhaustive": True})
    return v


def tlc_webhooks(consts, invariants, properties=(), view="WView", emit_file=None, simulate=None, depth=None, seed=None, timeout=1800):
    d = c.sub("cfg")
    cfg = os.path.join(d, "wh_%d.cfg" % random.randrange(1 << 30))
    c.write_cfg(cfg, "MWSpec", consts, invariants, properties, view=view)
    r = c.run_tlc("MC_Webhooks", cfg, timeout=timeout, out_file=emit_file, simulate=simulate, depth=depth, seed=seed, workers=1 if simulate else None)
    if not r.ok and not simulate:
        c.tlc_must_pass(r, "MC_Webhooks")
    return r


def c12(tier, seed, replay_path=None):
    binary = fc.build()
    if replay_path and json.load(open(replay_path))["case"].get("family") == "startup":
        return _startup_replay(binary, tier, seed, replay_path, "startup-webhook")
    if replay_path:
        payload = json.load(open(replay_path))
        p = os.path.join(c.sub("replay"), "one.jsonl")
        open(p, "w").write(json.dumps(payload["case"]["behaviour"]) + "\n")
        return simple_verdict("C12", fc.replay(binary, p, seed, nproc=1, op="webhooks"), [])
    rng = random.Random(seed)
    INV = ["InactiveIffErrorsReachedMax", "ErrorsBounded"]
    PR = ["SuccessResets", "InactiveOrDeletedNotCalled", "OnePostPerEventWithExactAuth", "ReRegisterRule"]
    urls = c.tla_set(["u1", "u2"])
    runs = []
    for mt in ((1, 2, 3) if tier == "quick" else (1, 2, 3, 5)):
        runs.append(tlc_webhooks({"Urls": urls, "MaxTries": mt, "MaxSteps": 7 if tier == "quick" else 9, "Emit": '"none"'}, INV, PR))
    d = c.sub("gen")
    from checks_chain import merge
    aggs, gen = [], {}
    plan = [("e1", 1, 4, 6000, None), ("e2", 2, 4, 6000, None), ("s3", 3, 12, 1500, 300)] if tier == "quick" else \
           [("e1", 1, 4, None, None), ("e2", 2, 5, 150000, None), ("e3", 3, 4, None, None), ("s3", 3, 16, 20000, 3000), ("s5", 5, 24, 10000, 2000)]
    for tag, mt, ms, sample, simn in plan:
        raw = os.path.join(d, "C12%s.out" % tag)
        r = tlc_webhooks({"Urls": urls, "MaxTries": mt, "MaxSteps": ms, "Emit": '"paths"'}, ["EmitInv"], view=None, emit_file=raw,
                         simulate=("num=%d" % simn) if simn else None, depth=ms + 1 if simn else None, seed=seed)
        runs.append(r)
        out = os.path.join(d, "C12%s.jsonl" % tag)
        n = c.unquote_lines(raw, out)
        os.unlink(raw)
        if n == 0:
            raise c.Infra("no webhook histories generated (%s)" % tag)
        if sample and n > sample:
            keep = set(rng.sample(range(n), sample))
            with open(out) as fi, open(out + ".s", "w") as fo:
                for i, line in enumerate(fi):
                    if i in keep:
                        fo.write(line)
            os.replace(out + ".s", out)
        gen[tag] = {"histories": n, "replayed": min(n, sample or n), "MaxTries": mt, "MaxSteps": ms, "simulated": bool(simn)}
        c.log("  gen C12%s: %d histories" % (tag, n))
        aggs.append(fc.replay(binary, out, seed, op="webhooks"))
        if tag in ("e2", "s3"):
            # the production client against an httptest server (method, headers, body recorded on the server side)
            small = out + ".real"
            with open(out) as fi, open(small, "w") as fo:
                for i, line in enumerate(fi):
                    if tier == "thorough" or i % 6 == 0:
                        fo.write(line)
            aggs.append(fc.replay(binary, small, seed, op="webhooks", extra_env={"VERIF_REALCLIENT": "1"}))
    agg = merge(aggs)
    st = agg["stats"]
    if st.get("op:notify", 0) == 0 or st.get("op:register", 0) == 0 or st.get("op:restart", 0) == 0:
        raise c.Infra("vacuous run: %s" % dict(st))
    return _with_startup(simple_verdict("C12", agg, runs, {"generation": gen, "exhaustive": tier != "quick",
                          "rule": "every sequence of register(bearer|custom|none) / delete / notify(outcome per called hook in 200, 500, transport error, unreadable body) / restart "
                                  "over two urls from Webhooks.tla (exhaustive to depth 4-5, simulated to depth 12-24); after EVERY operation GET /webhook?url= of every url is compared"}),
                         binary, tier, seed, "startup-webhook", "C12")


_AS_GB = 12


def _run_limited(binary, env_extra, cwd):
    """The API harness under an address-space limit: a request that makes the service ask for tens of gigabytes ends this
    process with the Go runtime's own 'out of memory' instead of the machine's OOM killer picking a victim."""
    import resource, subprocess
    env = c.go_env()
    env.update({k: str(v) for k, v in env_extra.items()})
    lim = _AS_GB << 30
    p = subprocess.run([binary, "-test.run", "^TestHarness$", "-test.timeout", "0"], env=env, cwd=cwd, stdout=subprocess.DEVNULL, stderr=subprocess.PIPE, text=True, timeout=3600,
                       preexec_fn=lambda: (c.die_with_parent(), resource.setrlimit(resource.RLIMIT_AS, (lim, lim))))
    p.stdout = ""
    return p


def c16(tier, seed, replay_path=None):
    binary = fc.build()
    d = c.sub("gen")
    cfg = os.path.join(d, "apierr.cfg")
    c.write_cfg(cfg, "ESpec", {}, ["NoFiveHundred", "MistakesAre4xx", "EmitInv"])
    raw = os.path.join(d, "C16.out")
    r = c.run_tlc("MC_ApiErrors", cfg, workers=1, out_file=raw)
    if not r.ok:
        c.tlc_must_pass(r, "MC_ApiErrors")
    tbl = os.path.join(d, "C16.table.json")
    if c.unquote_lines(raw, tbl, limit=1) != 1:
        raise c.Infra("request-class table was not emitted")
    nrows = len(json.load(open(tbl))["rows"])
    dbd = c.sub("c16db")
    out = os.path.join(d, "C16.res")
    inst = 4 if tier == "quick" else 40
    # two stores: (0) a fork and an orphan chain below the tip; (1) the highest stored headers are NOT on the longest chain
    # (a taller but lighter stale branch, an orphan chain longer than the main chain)
    agg = None
    for store in (0, 1):
        p, died = None, []
        for attempt in range(2):
            p = _run_limited(binary, {"VERIF_OP": "apierr", "VERIF_IN": tbl, "VERIF_OUT": out, "VERIF_DB": os.path.join(dbd, "e%d.db" % store), "VERIF_SEED": seed,
                                      "VERIF_INSTANCES": inst, "VERIF_STORE": store}, dbd)
            if p.returncode == 0 and os.path.exists(out):
                break
            # the process did not survive: which request was it serving?  Believed only when it dies on the same request again.
            i = max(p.stderr.find("fatal error:"), p.stderr.find("panic:"))
            if i < 0 or not os.path.exists(out + ".progress") or ("panic:" in p.stderr and c.panic_in_harness(p.stderr)):
                raise c.Infra("apierr harness failed: %s %s" % (p.stdout[-1500:], p.stderr[-1500:]))
            died.append((open(out + ".progress").read(), p.stderr[i:].splitlines()[0][:200], p.stderr[i:i + 3000]))
        if len(died) == 2:
            if died[0][0] != died[1][0]:
                raise c.Infra("apierr harness died twice on different requests: %s / %s" % (died[0][:2], died[1][:2]))
            v = simple_verdict("C16", {"behaviours": 0, "steps": 0, "queries": 0, "mismatches": [], "samples": [], "crashed": [], "stats": {}}, [r])
            v["violations"].append(("[store %d] %s -> the process serving the API dies (%s), twice in two runs, under an address-space limit of %d GB" % (store, died[0][0], died[0][1], _AS_GB),
                                    {"family": "apierr-death", "request": died[0][0], "stderr": died[0][2]}))
            v["level"] = "exploration"
            return v
        res = json.load(open(out))
        os.unlink(out)
        for m in res.get("mismatches") or []:
            m["exp"] = "[store %d] %s" % (store, m["exp"])
        if agg is None:
            agg = {"behaviours": res["behaviours"], "steps": 0, "queries": 0, "mismatches": [], "samples": res.get("samples") or [], "crashed": [], "stats": {}}
        agg["steps"] += res["steps"]
        agg["queries"] += res["queries"]
        agg["mismatches"] += res.get("mismatches") or []
        for k, x in (res.get("stats") or {}).items():
            agg["stats"][k] = agg["stats"].get(k, 0) + x
    res = {"queries": agg["queries"] // 2}
    if nrows < 150 or res["queries"] < (nrows - 2) * inst:
        raise c.Infra("vacuous run: %d rows, %d requests" % (nrows, res["queries"]))
    v = simple_verdict("C16", agg, [r], {"rows": nrows, "instances_per_row": inst, "exhaustive": False,
                       "rule": "the full product of parameter classes per route (ApiErrors.tla, emitted by TLC) x several grammar-generated concrete requests per class, "
                               "on a store with a fork and an orphan chain and on a store whose highest headers are stale / orphan; also with authentication on and every kind of Authorization header but a valid one; oracle: never 5xx, status family as owed, body exactly one JSON value, 4xx with code+message, headers digest unchanged"})
    v["level"] = "exploration"
    v["coverage"]["evaluations"] = res["queries"]
    v["coverage"]["distinct_nontrivial"] = nrows
    for f in c.findings_for("C16"):
        v["known"].append(f["what"])
    return v


def c20(tier, seed, replay_path=None):
    binary = fc.build()
    d = c.sub("gen")
    cfg = os.path.join(d, "config.cfg")
    c.write_cfg(cfg, "CSpec", {}, ["Precedence", "InvalidDbRefused", "EmitInv"])
    raw = os.path.join(d, "C20.out")
    r = c.run_tlc("MC_Config", cfg, workers=1, out_file=raw)
    if not r.ok:
        c.tlc_must_pass(r, "MC_Config")
    tbl = os.path.join(d, "C20.table.json")
    if c.unquote_lines(raw, tbl, limit=1) != 1:
        raise c.Infra("config tables were not emitted")
    t = json.load(open(tbl))
    dbd = c.sub("c20db")
    out = os.path.join(d, "C20.res")
    p = c.run_harness(binary, {"VERIF_OP": "config", "VERIF_IN": tbl, "VERIF_OUT": out, "VERIF_DB": os.path.join(dbd, "x.db"), "VERIF_SEED": seed}, cwd=dbd)
    if p.returncode != 0 or not os.path.exists(out):
        raise c.Infra("config harness failed: %s %s" % (p.stdout[-1500:], p.stderr[-1500:]))
    res = json.load(open(out))
    agg = {"behaviours": res["behaviours"], "steps": res["steps"], "queries": res["queries"], "mismatches": res.get("mismatches") or [],
           "samples": res.get("samples") or [], "crashed": [], "stats": res.get("stats") or {}}
    if res["behaviours"] < 25 or len(t["validation"]) < 100:
        raise c.Infra("vacuous run: %d keys, %d validation rows" % (res["behaviours"], len(t["validation"])))
    return simple_verdict("C20", agg, [r], {"leaf_keys": res["behaviours"], "precedence_rows": len(t["precedence"]), "validation_rows": len(t["validation"]),
                          "exhaustive": True,
                          "rule": "every leaf key of AppConfig (reflection over mapstructure tags) x every subset of {env, file} providing a value of the key's type "
                                  "(table emitted by TLC from Config.tla), all other keys checked to keep their defaults; the full database-section validation table through file and environment"})


CHECKS = {"C09": c09, "C10": c10, "C12": c12, "C16": c16, "C20": c20}
