"""Chain family: C01 C02 C03 C04 C08 C13 (+ generators reused by C05 C11 C17)."""
import json, os, subprocess, time, collections, random
import common as c

HARNESS = dict(name="chain", pkg_rel="internal/verifh/chain", virtual_pkgs={"chain": "internal/verifh/chain"})

C01_KINDS = {"result", "label", "tip", "rows", "http-tip", "http-state-label", "restart", "crash", "http-state"}
C03_KINDS = {"height", "cumwork", "chainwork", "fields", "svc-byhash", "http-byhash", "returned-hash", "returned-fields",
             "http-state-fields", "http-tip-fields", "rows", "restart"}


def build():
    return c.build_harness(**HARNESS)


def chain_consts(MaxN, MaxSteps, Works=(0, 1, 2), SharedRoots=False, MaxFuture=1, MaxForb=0, MaxResub=0, MaxRestart=0,
                 Deviations=(), Emit="none", QKinds=(), StepQ=()):
    return {"MaxN": MaxN, "Works": c.tla_set(Works), "SharedRoots": "TRUE" if SharedRoots else "FALSE",
            "MaxFuture": MaxFuture, "MaxForb": MaxForb, "Deviations": c.tla_set(Deviations), "MaxSteps": MaxSteps,
            "MaxResub": MaxResub, "MaxRestart": MaxRestart, "Emit": '"%s"' % Emit, "QKinds": c.tla_set(QKinds),
            "StepQ": c.tla_set(StepQ)}


def tlc_props(consts, invariants, properties=(), view="StateView", timeout=1800, coverage=False):
    d = c.sub("cfg")
    cfg = os.path.join(d, "prop_%d.cfg" % random.randrange(1 << 30))
    c.write_cfg(cfg, "MCSpec", consts, invariants, properties, view=view)
    r = c.tlc_must_pass(c.run_tlc("MC_Chain", cfg, timeout=timeout, coverage=coverage, workers=c.NCPU), "MC_Chain " + ",".join(invariants))
    c.log("  tlc props: %d distinct states, %.1fs" % (r.distinct, r.wall))
    return r


def random_shapes(rng, count, n, never, p_last=0.5, p_leaf=0.25, p_orphan=0.06):
    """Tree shapes biased towards long branches that fork again: parent = the newest header, a leaf, or any header."""
    shapes = []
    for _ in range(count):
        par, children = [], {0: 0}
        for i in range(1, n + 1):
            r = rng.random()
            leaves = [x for x in children if children[x] == 0]
            if r < p_orphan:
                p = never
            elif r < p_orphan + p_last and i > 1 and par[-1] != never:
                p = i - 1
            elif r < p_orphan + p_last + p_leaf and leaves:
                p = rng.choice(leaves)
            else:
                p = rng.choice(list(children))
            par.append(p)
            if p != never:
                children[p] = children.get(p, 0) + 1
            children[i] = 0
        shapes.append(par)
    return shapes


def generate(tag, consts, view=None, simulate=None, depth=None, seed=None, timeout=3600, sample=None, rng=None, shapes=None):
    """Run TLC in emission mode; returns (jsonl path, count, TlcResult)."""
    d = c.sub("gen")
    cfg = os.path.join(d, tag + ".cfg")
    module, extra_files, extra = "MC_Chain", (), None
    if shapes:
        # a generated module carries the tree shapes (a configuration file cannot hold tuples)
        module = "MC_ChainShaped"
        mp = os.path.join(d, module + ".tla")
        with open(mp, "w") as f:
            f.write("---- MODULE %s ----\nEXTENDS MC_Chain\nShapesV == {%s}\n====\n" % (module, ", ".join("<<%s>>" % ", ".join(map(str, sh)) for sh in shapes)))
        extra_files, extra = (mp,), ["CONSTANT Shapes <- ShapesV"]
    c.write_cfg(cfg, "MCSpec", consts, ["EmitInv"], (), view=view, extra=extra or ())
    raw = os.path.join(d, tag + ".out")
    res = c.run_tlc(module, cfg, timeout=timeout, simulate=simulate, depth=depth, seed=seed, out_file=raw,
                    workers=1 if simulate else None, extra_files=extra_files)
    if not res.ok and not simulate:
        raise c.Infra("generation run %s failed:\n%s" % (tag, res.out[-2000:]))
    out = os.path.join(d, tag + ".jsonl")
    t1 = time.time()
    n = c.unquote_lines(raw, out)
    c.log("  gen %s: %d behaviours, tlc %.1fs (%d states), decode %.1fs" % (tag, n, res.wall, res.distinct, time.time() - t1))
    os.unlink(raw)
    if sample and n > sample:
        rng = rng or random.Random(0)
        keep = set(rng.sample(range(n), sample))
        tmp = out + ".s"
        with open(out) as fi, open(tmp, "w") as fo:
            for i, line in enumerate(fi):
                if i in keep:
                    fo.write(line)
        os.replace(tmp, out)
        n = sample
    return out, n, res


def replay(binary, jsonl, seed, level=1, nproc=None, op="replay", extra_env=None, timeout=7200):
    """Shard the behaviours over processes (one SQLite file and directory each); aggregate the reports."""
    nproc = nproc or c.NCPU
    shards = c.shard_file(jsonl, nproc)
    procs = []
    env = c.go_env()
    base = 0
    for i, (p, cnt) in enumerate(shards):
        d = c.sub("db%02d_%d" % (i, random.randrange(1 << 30)))
        e = dict(env)
        e.update({"VERIF_OP": op, "VERIF_IN": p, "VERIF_OUT": p + ".res", "VERIF_DB": os.path.join(d, "bhs.db"),
                  "VERIF_SEED": str(seed * 100 + i), "VERIF_LEVEL": str(level), "VERIF_BASE": "0",
                  "TMPDIR": d})
        if extra_env:
            e.update({k: str(v) for k, v in extra_env.items()})
        procs.append((p, d, c.FileProc([binary, "-test.run", "^TestHarness$", "-test.timeout", "0"], e, d)))
    t0 = time.time()
    agg = {"behaviours": 0, "steps": 0, "queries": 0, "dev_used": collections.Counter(), "mismatches": [], "samples": [],
           "crashed": [], "stats": collections.Counter()}
    for i, (p, d, pr) in enumerate(procs):
        try:
            so, se = pr.communicate(timeout=timeout)
        except subprocess.TimeoutExpired:
            pr.kill()
            raise c.Infra("replay process timed out on " + p)
        if pr.returncode != 0 or not os.path.exists(p + ".res"):
            # crash attribution through the journal
            j = p + ".res.journal"
            last = open(j).read().strip().splitlines()[-1:] if os.path.exists(j) else []
            agg["crashed"].append({"shard": p, "rc": pr.returncode, "last": last, "stderr": se[-3000:]})
            continue
        r = json.load(open(p + ".res"))
        agg["behaviours"] += r["behaviours"]
        agg["steps"] += r["steps"]
        agg["queries"] += r.get("queries", 0)
        agg["dev_used"].update(r.get("dev_used") or {})
        agg["stats"].update(r.get("stats") or {})
        for m in (r.get("mismatches") or []):
            m["shard"] = p
            m["line"] = m["beh"]
            agg["mismatches"].append(m)
        agg["samples"] += (r.get("samples") or [])[:2]
    c.log("  replay %s: %d behaviours %d steps %d queries, %d mismatches, %.1fs" % (os.path.basename(jsonl), agg["behaviours"], agg["steps"], agg["queries"], len(agg["mismatches"]), time.time() - t0))
    return agg


def behaviour_at(shard, idx):
    with open(shard) as f:
        for i, line in enumerate(f):
            if i == idx:
                return json.loads(line)
    return None
