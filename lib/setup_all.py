"""./check --setup : parse every specification with SANY and build every harness once (warms the Go build cache)."""
import glob, os, subprocess, sys
import common as c


def run(reg):
    ok = True
    d = c.sub("sany")
    for f in sorted(glob.glob(os.path.join(c.SPEC, "*.tla"))):
        subprocess.run(["cp", f, d])
    for f in sorted(glob.glob(os.path.join(d, "*.tla"))):
        p = subprocess.run(["java", "-cp", c.TLA_CP, "tla2sany.SANY", os.path.basename(f)], cwd=d, capture_output=True, text=True)
        good = p.returncode == 0 and "Semantic errors" not in p.stdout and "Parse Error" not in p.stdout and "Fatal" not in p.stdout
        print("sany %-28s %s" % (os.path.basename(f), "ok" if good else "FAILED"))
        if not good:
            print(p.stdout[-1500:])
            ok = False
    import harness_builds
    for name, fn in harness_builds.BUILDS.items():
        try:
            fn()
            print("build %-20s ok" % name)
        except c.Infra as e:
            print("build %-20s FAILED\n%s" % (name, e))
            ok = False
    return 0 if ok else 2
