package p2p

// PeerLife.tla, direction A (C18): the life of a connection from the socket to the server's books and back.
// Real peer.Peer objects negotiate over net.Pipe with a scripted remote; what they announce goes into the REAL newPeers /
// donePeers channels of the server; the harness plays the peerHandler's select - it takes one channel or the other in the
// order the behaviour says (Go's select may take either ready arm) and calls the real handleAddPeerMsg / handleDonePeerMsg
// on a peerState it can look into.

import (
	"bufio"
	"encoding/json"
	"errors"
	"fmt"
	"net"
	"os"
	"strconv"
	"sync"
	"sync/atomic"
	"time"

	"github.com/bitcoin-sv/block-headers-service/internal/chaincfg"
	chainh "github.com/bitcoin-sv/block-headers-service/internal/verifh/chain"
	"github.com/bitcoin-sv/block-headers-service/internal/wire"
	"github.com/bitcoin-sv/block-headers-service/transports/p2p/addrmgr"
	"github.com/bitcoin-sv/block-headers-service/transports/p2p/peer"
)

func init() { rigOps["peerlife"] = opPeerLife }

type plEv struct {
	Ev       string   `json:"ev"`
	C        int      `json:"c"`
	Dir      string   `json:"dir"`
	M        string   `json:"m"`
	Out      string   `json:"out"`
	Admitted bool     `json:"admitted"`
	Found    bool     `json:"found"`
	Total    int      `json:"total"`
	PerHost  int      `json:"perhost"`
	PerGroup int      `json:"pergroup"`
	NewQ     int      `json:"newq"`
	DoneQ    int      `json:"doneq"`
	St       []string `json:"st"`
}

type plConn struct {
	sp     *serverPeer
	remote net.Conn
	mu     sync.Mutex
	got    map[string]int // what the local side has sent, by command
}

func (c *plConn) seen(cmd string) int {
	c.mu.Lock()
	defer c.mu.Unlock()
	return c.got[cmd]
}

func opPeerLife() error {
	in, err := os.Open(os.Getenv("VERIF_IN"))
	if err != nil {
		return err
	}
	defer in.Close()
	cpHash := chainhashFromByte(0x42)
	r, err := newRig(os.Getenv("VERIF_DB"), rigOpts{checkpoints: []chaincfg.Checkpoint{{Height: 1000, Hash: cpHash}}})
	if err != nil {
		return err
	}
	r.srv.syncManager.Start()
	go func() { // everything but the two channels the harness serves itself
		for {
			select {
			case <-r.srv.banPeers:
			case <-r.srv.peerHeightsUpdate:
			case <-r.srv.relayInv:
			case <-r.srv.broadcast:
			}
		}
	}()
	// slow is not stuck: the first wait that expires has lasted a full minute (a goroutine of a busy machine gets its turn
	// long before that); once that has happened the code is known to deviate and the later waits are short
	wait := time.Duration(envI("VERIF_WAIT_MS", 60000)) * time.Millisecond
	until := func(cond func() bool) bool {
		deadline := time.Now().Add(wait)
		for !cond() {
			if time.Now().After(deadline) {
				wait = 3 * time.Second
				return false
			}
			time.Sleep(50 * time.Microsecond)
		}
		return true
	}
	res := chainh.Result{DevUsed: map[string]int{}, Stats: map[string]int{}}
	var out []chainh.Mismatch
	t0 := time.Now()
	sc := bufio.NewScanner(in)
	sc.Buffer(make([]byte, 1<<20), 1<<26)
	idx := -1
	port := 30000
	const host = "44.1.0.1"
	group := addrmgr.GroupKey(wire.NewNetAddressIPPort(net.ParseIP(host), 8333, 0))
	for sc.Scan() {
		idx++
		var b struct {
			Hist []plEv `json:"hist"`
		}
		if err := json.Unmarshal(sc.Bytes(), &b); err != nil {
			return err
		}
		// leftovers of an earlier (diverged) behaviour must not be served to this one
		for len(r.srv.newPeers) > 0 {
			<-r.srv.newPeers
		}
		for len(r.srv.donePeers) > 0 {
			<-r.srv.donePeers
		}
		state := &peerState{inboundPeers: map[int32]*serverPeer{}, persistentPeers: map[int32]*serverPeer{}, outboundPeers: map[int32]*serverPeer{},
			banned: map[string]time.Time{}, outboundGroups: map[string]int{}, connectionCount: map[string]int{}}
		conns := map[int]*plConn{}
		bad := false
		miss := func(k int, exp, got string) {
			out = append(out, chainh.Mismatch{Beh: idx, Step: k, Kind: "peerlife", Exp: exp, Got: got})
			bad = true
		}
		for k, ev := range b.Hist {
			res.Stats["steps"]++
			res.Stats["ev:"+ev.Ev]++
			what := fmt.Sprintf("%s(c%d %s%s)", ev.Ev, ev.C, ev.M, ev.Dir)
			switch ev.Ev {
			case "connect":
				port++
				sp := newServerPeer(r.srv, false, &r.log)
				c1, c2 := net.Pipe()
				conn := &fakeConn{Conn: c1, remote: &net.TCPAddr{IP: net.ParseIP(host), Port: port}}
				if ev.Dir == "in" {
					sp.Peer = peer.NewInboundPeer(newPeerConfig(sp))
				} else {
					p, err := peer.NewOutboundPeer(newPeerConfig(sp), net.JoinHostPort(host, strconv.Itoa(port)))
					if err != nil {
						return err
					}
					sp.Peer = p
				}
				pc := &plConn{sp: sp, remote: c2, got: map[string]int{}}
				conns[ev.C] = pc
				go func() { // the remote's reader: takes whatever the local side sends
					for {
						m, _, err := wire.ReadMessage(c2, wire.ProtocolVersion, r.params.Net)
						if err != nil {
							var me *wire.MessageError
							if errors.As(err, &me) {
								continue
							}
							return
						}
						pc.mu.Lock()
						pc.got[m.Command()]++
						pc.mu.Unlock()
					}
				}()
				// as inboundPeerConnected / outboundPeerConnected do
				sp.AssociateConnection(conn)
				go r.srv.peerDoneHandler(sp)
				if ev.Dir == "out" && !until(func() bool { return pc.seen("version") == 1 }) {
					miss(k, what+": the outbound peer opens with its version message", "nothing within the wait")
				}
			case "msg":
				pc := conns[ev.C]
				var m wire.Message
				switch ev.M {
				case "version", "versionOld", "versionBad":
					me := wire.NewNetAddressIPPort(net.ParseIP(host), 8333, wire.SFNodeNetwork)
					you := wire.NewNetAddressIPPort(net.ParseIP("44.0.0.2"), 8333, 0)
					v := wire.NewMsgVersion(me, you, atomic.AddUint64(&nonceSeq, 1)+uint64(time.Now().UnixNano()), 0)
					v.AddService(wire.SFNodeNetwork)
					_ = v.AddUserAgent("verif-node", "1.0")
					v.ProtocolVersion = int32(wire.ProtocolVersion)
					if ev.M == "versionOld" {
						v.ProtocolVersion = int32(peer.MinAcceptableProtocolVersion) - 1
					}
					if ev.M == "versionBad" {
						v.UserAgent = "/Bitcoin Cash Node:1.0/"
					}
					m = v
				case "verack":
					m = wire.NewMsgVerAck()
				default:
					m = wire.NewMsgPing(uint64(k + 1))
				}
				pongs, rejects := pc.seen("pong"), pc.seen("reject")
				_ = pc.remote.SetWriteDeadline(time.Now().Add(wait))
				werr := wire.WriteMessage(pc.remote, m, wire.ProtocolVersion, r.params.Net)
				ok := true
				switch ev.Out {
				case "version":
					ok = until(func() bool { return len(r.srv.newPeers) >= ev.NewQ })
				case "fail":
					ok = until(func() bool { return !pc.sp.Connected() && len(r.srv.donePeers) >= ev.DoneQ })
				case "rejected":
					ok = until(func() bool { return !pc.sp.Connected() && len(r.srv.donePeers) >= ev.DoneQ && pc.seen("reject") > rejects })
				case "ack":
					ok = until(func() bool { return pc.sp.VerAckReceived() })
				case "none":
					ok = until(func() bool { return pc.seen("pong") > pongs })
				}
				if !ok {
					miss(k, fmt.Sprintf("%s takes effect as %q (announcements queued %d, departures queued %d)", what, ev.Out, ev.NewQ, ev.DoneQ),
						fmt.Sprintf("not within the wait: connected=%v versionKnown=%v verack=%v announcements queued %d, departures queued %d, write error %v",
							pc.sp.Connected(), pc.sp.VersionKnown(), pc.sp.VerAckReceived(), len(r.srv.newPeers), len(r.srv.donePeers), werr))
				}
			case "close":
				pc := conns[ev.C]
				_ = pc.remote.Close()
				if !until(func() bool { return !pc.sp.Connected() && len(r.srv.donePeers) >= ev.DoneQ }) {
					miss(k, what+": the peer is gone and its departure is queued", fmt.Sprintf("connected=%v, departures queued %d", pc.sp.Connected(), len(r.srv.donePeers)))
				}
			case "procadd":
				select {
				case sp := <-r.srv.newPeers:
					if got := r.srv.handleAddPeerMsg(state, sp); got != ev.Admitted {
						miss(k, fmt.Sprintf("%s: handleAddPeerMsg admits=%v (peer connected: %v)", what, ev.Admitted, sp.Connected()), fmt.Sprint(got))
					}
				default:
					miss(k, what+": an announcement is queued", "newPeers is empty")
				}
			case "procdone":
				select {
				case sp := <-r.srv.donePeers:
					r.srv.handleDonePeerMsg(state, sp)
				default:
					miss(k, what+": a departure is queued", "donePeers is empty")
				}
			}
			if bad {
				break
			}
			// the books after every event
			time.Sleep(20 * time.Microsecond)
			if state.Count() != ev.Total || state.connectionCount[host] != ev.PerHost || state.outboundGroups[group] != ev.PerGroup {
				miss(k, fmt.Sprintf("after %s: %d peers booked, per-host counter %d, outbound group counter %d", what, ev.Total, ev.PerHost, ev.PerGroup),
					fmt.Sprintf("%d peers booked, per-host counter %d, outbound group counter %d", state.Count(), state.connectionCount[host], state.outboundGroups[group]))
				break
			}
			if ev.Ev == "msg" || ev.Ev == "close" || ev.Ev == "connect" {
				if len(r.srv.newPeers) != ev.NewQ || len(r.srv.donePeers) != ev.DoneQ {
					miss(k, fmt.Sprintf("after %s: %d announcements and %d departures queued", what, ev.NewQ, ev.DoneQ), fmt.Sprintf("%d and %d", len(r.srv.newPeers), len(r.srv.donePeers)))
					break
				}
			}
			for ci, st := range ev.St {
				if pc := conns[ci+1]; pc != nil && (st == "closed") != !pc.sp.Connected() {
					miss(k, fmt.Sprintf("after %s: connection %d is %s", what, ci+1, st), fmt.Sprintf("connected=%v", pc.sp.Connected()))
				}
			}
			if bad {
				break
			}
		}
		// leave nothing behind: every connection is closed and its departure has been queued (peerDoneHandler closes
		// sp.quit after it has queued it) before the channels are emptied for the next behaviour
		for _, pc := range conns {
			_ = pc.remote.Close()
			pc.sp.Disconnect()
		}
		for _, pc := range conns {
			select {
			case <-pc.sp.quit:
			case <-time.After(20 * time.Second):
				return fmt.Errorf("a harness peer did not finish (behaviour %d)", idx)
			}
		}
		if idx < 2 {
			res.Samples = append(res.Samples, sc.Text()[:min(len(sc.Text()), 2500)])
		}
		if len(out) > 60 {
			break
		}
	}
	res.Behaviours, res.Steps, res.Mismatches, res.WallS = idx+1, res.Stats["steps"], out, time.Since(t0).Seconds()
	js, _ := json.Marshal(res)
	return os.WriteFile(os.Getenv("VERIF_OUT"), js, 0o644)
}
