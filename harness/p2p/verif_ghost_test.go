package p2p

// C18, end to end on the RUNNING server: the order in which peerHandler's select takes newPeers and donePeers is Go's choice
// when both are ready.  The handler is kept busy with a query whose answer nobody collects yet (as a slow GET /network/peer
// does); meanwhile a remote connects, sends its version and leaves: its announcement and its departure are both queued.
// When the handler resumes, either may come first.  After a number of such visits from one address, a well-behaved
// node from that address must still be admitted: nobody from there is connected.

import (
	"fmt"
	"net"
	"os"
	"time"

	chainh "github.com/bitcoin-sv/block-headers-service/internal/verifh/chain"
	"github.com/bitcoin-sv/block-headers-service/internal/wire"
)

func init() { rigOps["ghost"] = opGhost }

func opGhost() error {
	rounds := int(chainh.EnvInt("VERIF_ROUNDS", 24))
	scn := &syScn{Par: []int{0, 1}, CpEnabled: false, Cap: 3}
	sr, err := newSyncRig(os.Getenv("VERIF_DB"), scn)
	if err != nil {
		return err
	}
	defer sr.stop()
	ip := net.IPv4(127, 0, 0, 77)
	until := func(d time.Duration, cond func() bool) bool {
		deadline := time.Now().Add(d)
		for !cond() {
			if time.Now().After(deadline) {
				return false
			}
			time.Sleep(100 * time.Microsecond)
		}
		return true
	}
	visit := func() (net.Conn, error) {
		d := net.Dialer{LocalAddr: &net.TCPAddr{IP: ip}, Timeout: 3 * time.Second}
		c, err := chainh.PatientDial(&d, "tcp", "127.0.0.1:"+sr.params.DefaultPort)
		if err != nil {
			return nil, err
		}
		me := wire.NewNetAddressIPPort(ip, 18444, wire.SFNodeNetwork)
		you := wire.NewNetAddressIPPort(net.IPv4(127, 0, 0, 1), 18444, 0)
		sr.nonce++
		ver := wire.NewMsgVersion(me, you, sr.nonce<<20|uint64(time.Now().UnixNano()&0xfffff), 0)
		ver.AddService(wire.SFNodeNetwork)
		_ = ver.AddUserAgent("verif-node", "1.0")
		if err := wire.WriteMessage(c, ver, wire.ProtocolVersion, sr.params.Net); err != nil {
			c.Close()
			return nil, err
		}
		return c, nil
	}
	bothQueued := 0
	for i := 0; i < rounds; i++ {
		reply := make(chan int32)
		sr.srv.query <- getConnCountMsg{reply: reply} // taken by peerHandler, which now waits for somebody to collect the answer
		c, err := visit()
		if err != nil {
			<-reply
			continue
		}
		// the service answers the version with verack + version: the announcement has been made by then
		_ = c.SetReadDeadline(time.Now().Add(3 * time.Second))
		for k := 0; k < 2; k++ {
			if _, _, err := wire.ReadMessage(c, wire.ProtocolVersion, sr.params.Net); err != nil {
				break
			}
		}
		_ = c.Close()
		if until(5*time.Second, func() bool { return len(sr.srv.newPeers) >= 1 && len(sr.srv.donePeers) >= 1 }) {
			bothQueued++
		}
		<-reply
		until(5*time.Second, func() bool { return len(sr.srv.newPeers) == 0 && len(sr.srv.donePeers) == 0 })
		time.Sleep(time.Millisecond)
	}
	// the well-behaved node
	admitted, reason := true, ""
	c, err := visit()
	if err != nil {
		return fmt.Errorf("HARNESS-ERROR dial: %v", err)
	}
	defer c.Close()
	_ = c.SetReadDeadline(time.Now().Add(60 * time.Second))
	gotVer := false
	for !gotVer {
		m, _, err := wire.ReadMessage(c, wire.ProtocolVersion, sr.params.Net)
		if err != nil {
			if _, ok := err.(*wire.MessageError); ok {
				continue
			}
			if ne, ok := err.(net.Error); ok && ne.Timeout() {
				return fmt.Errorf("HARNESS-ERROR: no answer from the service within the wait (busy machine?): %v", err)
			}
			admitted, reason = false, "closed during the handshake: "+err.Error()
			break
		}
		if _, ok := m.(*wire.MsgVersion); ok {
			gotVer = true
		}
	}
	if admitted {
		_ = wire.WriteMessage(c, wire.NewMsgVerAck(), wire.ProtocolVersion, sr.params.Net)
		// still there after the server has processed the announcement?  ping until a pong comes back or the connection is closed
		_ = wire.WriteMessage(c, wire.NewMsgPing(4242), wire.ProtocolVersion, sr.params.Net)
		_ = c.SetReadDeadline(time.Now().Add(60 * time.Second))
		for {
			m, _, err := wire.ReadMessage(c, wire.ProtocolVersion, sr.params.Net)
			if err != nil {
				if _, ok := err.(*wire.MessageError); ok {
					continue
				}
				if ne, ok := err.(net.Error); ok && ne.Timeout() {
					return fmt.Errorf("HARNESS-ERROR: no answer from the service within the wait (busy machine?): %v", err)
				}
				admitted, reason = false, "disconnected by the service after the handshake: "+err.Error()
				break
			}
			if p, ok := m.(*wire.MsgPong); ok && p.Nonce == 4242 {
				// the announcement may still be on its way to the handler: give it its time, then look again
				time.Sleep(50 * time.Millisecond)
				_ = wire.WriteMessage(c, wire.NewMsgPing(4343), wire.ProtocolVersion, sr.params.Net)
				continue
			}
			if p, ok := m.(*wire.MsgPong); ok && p.Nonce == 4343 {
				break
			}
		}
	}
	connected := sr.srv.ConnectedCount()
	return os.WriteFile(os.Getenv("VERIF_OUT"), []byte(fmt.Sprintf(`{"rounds":%d,"both_queued":%d,"admitted":%v,"reason":%q,"connected_count":%d}`, rounds, bothQueued, admitted, reason, connected)), 0o644)
}
