package p2p

// C15 (free-running part): peers connect, deliver headers and disconnect while API readers ask GET /network/peer,
// /network/peer/count and the tip - run under the race detector (the rig is built with -race for this op).

import (
	"fmt"
	"os"
	"sync"
	"sync/atomic"
	"time"

	chainh "github.com/bitcoin-sv/block-headers-service/internal/verifh/chain"
	"github.com/bitcoin-sv/block-headers-service/internal/wire"
)

func init() { rigOps["churn"] = opChurn }

func opChurn() error {
	rounds := int(chainh.EnvInt("VERIF_ROUNDS", 40))
	scn := &syScn{Par: []int{0, 1, 2, 3, 4, 5}, Cps: []int{2}, CpEnabled: true, Cap: 3}
	sr, err := newSyncRig(os.Getenv("VERIF_DB"), scn)
	if err != nil {
		return err
	}
	stop := make(chan struct{})
	var wg sync.WaitGroup
	var reads atomic.Int64
	for g := 0; g < 3; g++ {
		wg.Add(1)
		go func() {
			defer wg.Done()
			for {
				select {
				case <-stop:
					return
				default:
				}
				sr.stack.HTTP("GET", "/api/v1/network/peer", nil, nil)
				sr.stack.HTTP("GET", "/api/v1/network/peer/count", nil, nil)
				sr.stack.HTTP("GET", "/api/v1/chain/tip/longest", nil, nil)
				reads.Add(1)
			}
		}()
	}
	for r := 0; r < rounds; r++ {
		for p := 1; p <= 3; p++ {
			if err := sr.connect(p, len(scn.Par)); err != nil {
				continue
			}
		}
		for p := 1; p <= 3; p++ {
			if n := sr.nodes[p]; n != nil && !n.isClosed() {
				ids := []int{}
				for b := 1; b <= 1+(r+p)%len(scn.Par); b++ {
					ids = append(ids, b)
				}
				_ = n.send(sr.headersMsg(ids))
				inv := wire.NewMsgInv()
				h := sr.hashes[len(scn.Par)]
				_ = inv.AddInvVect(wire.NewInvVect(wire.InvTypeBlock, &h))
				_ = n.send(inv)
				// and asks the service for headers (the handler runs on the peer's goroutine and consults the sync manager)
				gh := wire.NewMsgGetHeaders()
				g := sr.hashes[0]
				_ = gh.AddBlockLocatorHash(&g)
				_ = n.send(gh)
			}
		}
		time.Sleep(2 * time.Millisecond)
		for p := 1; p <= 3; p++ {
			if n := sr.nodes[p]; n != nil {
				_ = n.conn.Close()
			}
		}
		time.Sleep(time.Millisecond)
	}
	close(stop)
	wg.Wait()
	sr.stop()
	return os.WriteFile(os.Getenv("VERIF_OUT"), []byte(fmt.Sprintf(`{"rounds":%d,"reads":%d}`, rounds, reads.Load())), 0o644)
}
