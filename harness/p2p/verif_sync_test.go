package p2p

// C06 / C07: lock-step replay of Sync.tla behaviours on the REAL legacy server (newServer + SyncManager + peer objects,
// real SQL stack) with scripted protocol nodes on loopback TCP.

import (
	"bufio"
	"encoding/json"
	"errors"
	"fmt"
	"net"
	"os"
	"sync"
	"time"

	"github.com/bitcoin-sv/block-headers-service/internal/chaincfg"
	"github.com/bitcoin-sv/block-headers-service/internal/chaincfg/chainhash"
	chainh "github.com/bitcoin-sv/block-headers-service/internal/verifh/chain"
	"github.com/bitcoin-sv/block-headers-service/internal/wire"
)

func init() { rigOps["sync"] = opSync }

type sentMsg struct {
	T    string `json:"t"`
	To   int    `json:"to"`
	Loc  []int  `json:"loc"`
	Stop int    `json:"stop"`
}

type syStep struct {
	Kind  string    `json:"kind"`
	Op    string    `json:"op"`
	P     int       `json:"p"`
	B     int       `json:"b"`
	How   string    `json:"how"`
	Ids   []int     `json:"ids"`
	Sent  []sentMsg `json:"sent"`
	Tip   int       `json:"tip"`
	St    []string  `json:"st"`
	Sync    int   `json:"sync"`
	Quiet   bool  `json:"quiet"`
	Banned  any   `json:"banned"`  // env connect: bool ; mgr: list of banned peers
	BestOff int   `json:"bestoff"` // mgr: best block offered by the connected nodes (-1 = none)
	Raw     bool  `json:"raw"`     // env reply: the node ignores the stop hash
	Loc     []int `json:"loc"`     // env ask: locator (block ids; ids above the universe = hashes the service cannot know)
	Stop    int   `json:"stop"`    // env ask: stop block id, -1 = zero hash
	Served  *struct {
		Sent bool  `json:"sent"`
		Ids  []int `json:"ids"`
	} `json:"served"` // env ask: the answer the service owes (C13): none while not current, else the next longest-chain headers
}

type syScn struct {
	Par       []int  `json:"par"`
	Cps       []int  `json:"cps"`
	CpEnabled bool   `json:"cpEnabled"`
	Forbid    []int  `json:"forbid"`
	Cap       int    `json:"cap"`
	Name      string `json:"name"`
	Findings  []string `json:"findings"`
}

type syFinal struct {
	St      []string `json:"st"`
	Tip     int      `json:"tip"`
	BestOff int      `json:"bestoff"`
	Best    []int    `json:"best"`
	Conv    bool     `json:"conv"`
	Banned  []int    `json:"banned"`
	Why     string   `json:"why"`
}

type syBeh struct {
	Hist  []syStep `json:"hist"`
	Scn   syScn    `json:"scn"`
	Final *syFinal `json:"final"`
}

// node is one scripted protocol node.
type node struct {
	id     int
	conn   net.Conn
	mu     sync.Mutex
	got    []sentMsg // getheaders received (as block ids)
	closed bool
	pongs  chan uint64
	net    wire.BitcoinNet
	byHash map[chainhash.Hash]int
	best   int // the node's current tip (block id)
	asked  int // getheaders answered so far
	hdrs   [][]int // headers messages received from the service (block ids; -77 = unknown hash)
}

func (n *node) send(m wire.Message) error {
	return wire.WriteMessage(n.conn, m, wire.ProtocolVersion, n.net)
}

func (n *node) reader() {
	for {
		m, _, err := wire.ReadMessage(n.conn, wire.ProtocolVersion, n.net)
		if err != nil {
			if _, ok := err.(*wire.MessageError); ok {
				continue
			}
			n.mu.Lock()
			n.closed = true
			n.mu.Unlock()
			close(n.pongs)
			return
		}
		switch mm := m.(type) {
		case *wire.MsgPing:
			_ = n.send(wire.NewMsgPong(mm.Nonce))
		case *wire.MsgPong:
			n.pongs <- mm.Nonce
		case *wire.MsgGetHeaders:
			s := sentMsg{T: "gh", To: n.id, Stop: -1}
			for _, h := range mm.BlockLocatorHashes {
				if id, ok := n.byHash[*h]; ok {
					s.Loc = append(s.Loc, id)
				} else {
					s.Loc = append(s.Loc, -77)
				}
			}
			if mm.HashStop != (chainhash.Hash{}) {
				if id, ok := n.byHash[mm.HashStop]; ok {
					s.Stop = id
				} else {
					s.Stop = -77
				}
			}
			n.mu.Lock()
			n.got = append(n.got, s)
			n.mu.Unlock()
		case *wire.MsgHeaders:
			ids := []int{}
			for _, h := range mm.Headers {
				if id, ok := n.byHash[h.BlockHash()]; ok {
					ids = append(ids, id)
				} else {
					ids = append(ids, -77)
				}
			}
			n.mu.Lock()
			n.hdrs = append(n.hdrs, ids)
			n.mu.Unlock()
		}
	}
}

func (n *node) isClosed() bool {
	n.mu.Lock()
	defer n.mu.Unlock()
	return n.closed
}

// barrier: everything this node sent before has been read by the service's peer, and everything the service queued
// for this node before answering has arrived.
func (n *node) barrier(nonce uint64) bool {
	if n.isClosed() {
		return false
	}
	if n.send(wire.NewMsgPing(nonce)) != nil {
		return false
	}
	for {
		select {
		case v, ok := <-n.pongs:
			if !ok {
				return false
			}
			if v == nonce {
				return true
			}
		case <-time.After(15 * time.Second):
			shaky = true // a live connection that does not answer a ping in 15 s: the machine is too busy for a verdict
			return false
		}
	}
}

// shaky is set when a synchronisation barrier timed out: what follows in that behaviour is not evidence
var shaky bool

type syncRig struct {
	*rig
	blocks  []wire.BlockHeader // index = block id (0 = genesis)
	hashes  []chainhash.Hash
	byHash  map[chainhash.Hash]int
	heights []int
	nodes   map[int]*node
	nonce   uint64
	events  *chainh.EventCounter
}

func newSyncRig(dbPath string, scn *syScn) (*syncRig, error) {
	nb := len(scn.Par)
	sr := &syncRig{byHash: map[chainhash.Hash]int{}, nodes: map[int]*node{}}
	g := chaincfg.RegressionNetParams.GenesisBlock.Header
	sr.blocks = make([]wire.BlockHeader, nb+1)
	sr.hashes = make([]chainhash.Hash, nb+1)
	sr.heights = make([]int, nb+1)
	sr.blocks[0] = g
	sr.hashes[0] = g.BlockHash()
	now := time.Now().Add(-time.Hour).Unix()
	for b := 1; b <= nb; b++ {
		p := scn.Par[b-1]
		sr.heights[b] = sr.heights[p] + 1
		sr.blocks[b] = wire.BlockHeader{Version: 1, PrevBlock: sr.hashes[p], MerkleRoot: chainhash.Hash{byte(b), 0xee}, Timestamp: time.Unix(now+int64(b), 0), Bits: 0x207fffff, Nonce: uint32(b)}
		sr.hashes[b] = sr.blocks[b].BlockHash()
	}
	for i, h := range sr.hashes {
		sr.byHash[h] = i
	}
	var cps []chaincfg.Checkpoint
	for _, c := range scn.Cps {
		h := sr.hashes[c]
		cps = append(cps, chaincfg.Checkpoint{Height: int32(sr.heights[c]), Hash: &h})
	}
	// checkpoints must be ordered oldest to newest
	for i := range cps {
		for j := i + 1; j < len(cps); j++ {
			if cps[j].Height < cps[i].Height {
				cps[i], cps[j] = cps[j], cps[i]
			}
		}
	}
	var forb []*chainhash.Hash
	for _, f := range scn.Forbid {
		h := sr.hashes[f]
		forb = append(forb, &h)
	}
	chaincfg.RegressionNetParams.HeadersToIgnore = forb // the chain service reads the list from the global regtest parameters
	r, err := newRig(dbPath, rigOpts{checkpoints: cps, disableCheckpoints: !scn.CpEnabled, banDuration: time.Hour})
	if err != nil {
		return nil, err
	}
	sr.rig = r
	// the whole system: what the sync engine stores goes out as notifications (C11 through the P2P path)
	sr.events = &chainh.EventCounter{}
	r.stack.Svc.Notifier.AddChannel(sr.events)
	if err := r.srv.Start(); err != nil {
		return nil, err
	}
	return sr, nil
}

func (sr *syncRig) stop() {
	for _, n := range sr.nodes {
		if n.conn != nil {
			_ = n.conn.Close()
		}
	}
	sr.srv.Stop()
	done := make(chan struct{})
	go func() { sr.srv.WaitForShutdown(); close(done) }()
	select {
	case <-done:
	case <-time.After(3 * time.Second):
	}
	sr.stack.Close()
	chaincfg.RegressionNetParams.HeadersToIgnore = nil
}

// restart stops the server and the services, reopens the same database file (database.Init) and starts a new server
func (sr *syncRig) restart() error {
	for _, n := range sr.nodes {
		if n.conn != nil {
			_ = n.conn.Close()
		}
	}
	sr.srv.Stop()
	done := make(chan struct{})
	go func() { sr.srv.WaitForShutdown(); close(done) }()
	select {
	case <-done:
	case <-time.After(3 * time.Second):
	}
	sr.stack.Close()
	cfg := sr.stack.Cfg
	sr.stack = &chainh.Stack{Cfg: cfg}
	if err := sr.stack.Open(); err != nil {
		return err
	}
	var srv *server
	var err error
	for attempt := 0; attempt < 50; attempt++ { // the listening port may need a moment to be free again
		srv, err = newServer(&sr.params, sr.stack.Svc, sr.stack.Peers, cfg.P2P, &sr.log)
		if err == nil {
			break
		}
		time.Sleep(10 * time.Millisecond)
	}
	if err != nil {
		return err
	}
	sr.srv = srv
	return sr.srv.Start()
}

var errDial = errors.New("dial failed")

func (sr *syncRig) connect(p, b int) error {
	d := net.Dialer{LocalAddr: &net.TCPAddr{IP: net.IPv4(127, 0, 0, byte(10+p))}, Timeout: 3 * time.Second}
	c, err := chainh.PatientDial(&d, "tcp", "127.0.0.1:"+sr.params.DefaultPort)
	if err != nil {
		// the machine could not give this node a connection (no free port, listen queue full): not an observation
		delete(sr.nodes, p)
		return fmt.Errorf("%w: %v", errDial, err)
	}
	n := &node{id: p, conn: c, pongs: make(chan uint64, 16), net: sr.params.Net, byHash: sr.byHash}
	sr.nodes[p] = n
	me := wire.NewNetAddressIPPort(net.IPv4(127, 0, 0, byte(10+p)), 18444, wire.SFNodeNetwork)
	you := wire.NewNetAddressIPPort(net.IPv4(127, 0, 0, 1), 18444, 0)
	sr.nonce++
	ver := wire.NewMsgVersion(me, you, sr.nonce<<20|uint64(time.Now().UnixNano()&0xfffff), int32(sr.heights[b]))
	ver.AddService(wire.SFNodeNetwork)
	_ = ver.AddUserAgent("verif-node", "1.0")
	if err := n.send(ver); err != nil {
		return err
	}
	// read version + verack of the service, then acknowledge
	gotVer := false
	for !gotVer {
		_ = c.SetReadDeadline(time.Now().Add(3 * time.Second))
		m, _, err := wire.ReadMessage(c, wire.ProtocolVersion, sr.params.Net)
		if err != nil {
			if _, ok := err.(*wire.MessageError); ok {
				continue
			}
			return fmt.Errorf("handshake: %v", err)
		}
		if _, ok := m.(*wire.MsgVersion); ok {
			gotVer = true
		}
	}
	_ = c.SetReadDeadline(time.Time{})
	if err := n.send(wire.NewMsgVerAck()); err != nil {
		return err
	}
	go n.reader()
	return nil
}

func (sr *syncRig) headersMsg(ids []int) *wire.MsgHeaders {
	m := wire.NewMsgHeaders()
	for _, id := range ids {
		h := sr.blocks[id]
		_ = m.AddBlockHeader(&h)
	}
	return m
}

// settle crosses every barrier: node -> service peer reader -> sync manager -> server peer handler -> back.
func (sr *syncRig) settle() {
	// a connection that went down is reported by the server's peerDoneHandler goroutine: first to the server, later to the
	// sync manager.  No barrier message can overtake that goroutine, so the books themselves are watched: the server and
	// the manager must both count exactly the nodes that are still connected before the step counts as finished.
	live := 0
	for _, n := range sr.nodes {
		if !n.isClosed() {
			live++
		}
	}
	deadline := time.Now().Add(10 * time.Second)
	for int(sr.srv.ConnectedCount()) != live || len(sr.stack.Peers) != live {
		if time.Now().After(deadline) {
			shaky = true
			break
		}
		time.Sleep(200 * time.Microsecond)
		live = 0
		for _, n := range sr.nodes {
			if !n.isClosed() {
				live++
			}
		}
	}
	for round := 0; round < 2; round++ {
		for _, n := range sr.nodes {
			sr.nonce++
			n.barrier(sr.nonce)
		}
		_ = sr.srv.syncManager.IsCurrent()
		_ = sr.srv.ConnectedCount()
		_ = sr.srv.syncManager.IsCurrent()
	}
}

func (sr *syncRig) observe(nb int) (st []string, tip int) {
	rows, _ := sr.stack.Rows()
	st = make([]string, nb+1)
	for i := 0; i <= nb; i++ {
		if r, ok := rows[sr.hashes[i].String()]; ok {
			st[i] = map[string]string{"LONGEST_CHAIN": "L", "STALE": "S", "ORPHAN": "O"}[r.State]
		} else {
			st[i] = "-"
		}
	}
	tip = -1
	if t := sr.stack.Svc.Headers.GetTip(); t != nil {
		if id, ok := sr.byHash[t.Hash]; ok {
			tip = id
		}
	}
	return
}

// storedHeights returns the height recorded in the store for every stored block id.
func (sr *syncRig) storedHeights() map[int]int {
	rows, _ := sr.stack.Rows()
	m := map[int]int{}
	for i, h := range sr.hashes {
		if r, ok := rows[h.String()]; ok {
			m[i] = int(r.Height)
		}
	}
	return m
}

// chainOf returns the ids of the chain ending in b (genesis first).
func (sr *syncRig) chainOf(par []int, b int) []int {
	var c []int
	for x := b; x != 0; x = par[x-1] {
		c = append([]int{x}, c...)
	}
	return append([]int{0}, c...)
}

// protoReply is the protocol-conformant answer of a node whose best block is `best` to a getheaders request:
// the headers after the first locator entry on its chain (after genesis if none), at most cap, not beyond the stop hash.
func (sr *syncRig) protoReply(par []int, best int, rq sentMsg, cap int) []int {
	ch := sr.chainOf(par, best)
	pos := map[int]int{}
	for i, id := range ch {
		pos[id] = i
	}
	start := 0
	for _, l := range rq.Loc {
		if i, ok := pos[l]; ok {
			start = i
			break
		}
	}
	end := len(ch) - 1
	if i, ok := pos[rq.Stop]; ok && rq.Stop >= 0 && i > start && i < end {
		end = i
	}
	if start+cap < end {
		end = start + cap
	}
	if end <= start {
		return nil
	}
	return ch[start+1 : end+1]
}

func opSync() error {
	in, err := os.Open(os.Getenv("VERIF_IN"))
	if err != nil {
		return err
	}
	defer in.Close()
	res := chainh.Result{DevUsed: map[string]int{}, Stats: map[string]int{}}
	var out []chainh.Mismatch
	t0 := time.Now()
	sc := bufio.NewScanner(in)
	sc.Buffer(make([]byte, 1<<20), 1<<27)
	idx := 0
	for sc.Scan() {
		var b syBeh
		if err := json.Unmarshal(sc.Bytes(), &b); err != nil {
			return err
		}
		dbPath := fmt.Sprintf("%s.%d", os.Getenv("VERIF_DB"), idx)
		var sr *syncRig
		for attempt := 0; ; attempt++ {
			sr, err = newSyncRig(dbPath, &b.Scn)
			if err == nil {
				break
			}
			if attempt > 8 { // another process may grab the free port between probing and listening
				return err
			}
			time.Sleep(time.Duration(attempt+1) * 3 * time.Millisecond)
		}
		nb := len(b.Scn.Par)
		// kinds: sync-outcome / sync-contain are PROPERTY-level (C06 / C07); sync-drift is model-level (the service did
		// something else than Sync.tla predicts, e.g. asked differently) and is reported separately
		miss := func(k int, kind, exp, got string) {
			out = append(out, chainh.Mismatch{Beh: idx, Step: k, Kind: kind, Exp: exp, Got: got})
		}
		consumed := map[int]int{}
		everClosed := map[int]bool{}
		drifted := false
		shaky = false
		outAtStart := len(out)
		var lastMgr *syStep
		for k := 0; k < len(b.Hist); k++ {
			st := b.Hist[k]
			if st.Kind != "env" {
				continue
			}
			res.Stats["env:"+st.Op]++
			res.Steps++
			var expSent []sentMsg
			for j := k + 1; j < len(b.Hist) && b.Hist[j].Kind == "mgr"; j++ {
				expSent = append(expSent, b.Hist[j].Sent...)
				lastMgr = &b.Hist[j]
			}
			bannedConnect, _ := st.Banned.(bool)
			var opErr error
			before := sr.storedHeights()
			switch st.Op {
			case "connect":
				consumed[st.P] = 0
				everClosed[st.P] = false
				opErr = sr.connect(st.P, st.B)
				if errors.Is(opErr, errDial) {
					shaky = true
				}
				if opErr != nil && bannedConnect {
					opErr = nil // refused during the handshake: also a refusal
					if n := sr.nodes[st.P]; n != nil {
						n.mu.Lock()
						n.closed = true
						n.mu.Unlock()
					}
				}
				if n := sr.nodes[st.P]; n != nil {
					n.best = st.B
				}
			case "reply":
				n := sr.nodes[st.P]
				n.mu.Lock()
				var rq *sentMsg
				if n.asked < len(n.got) {
					r := n.got[n.asked]
					rq = &r
					n.asked++
				}
				n.mu.Unlock()
				if rq == nil || n.isClosed() {
					if !drifted {
						miss(k, "sync-drift", fmt.Sprintf("node %d has a getheaders to answer", st.P), "none pending")
					}
					drifted = true
					continue
				}
				if st.Raw {
					rq.Stop = -1
				}
				ids := sr.protoReply(b.Scn.Par, n.best, *rq, b.Scn.Cap)
				if fmt.Sprint(ids) != fmt.Sprint(st.Ids) && !(len(ids) == 0 && len(st.Ids) == 0) {
					if !drifted {
						miss(k, "sync-drift", fmt.Sprintf("node %d answers %v", st.P, st.Ids), fmt.Sprintf("request %+v is answered %v", *rq, ids))
					}
					drifted = true
				}
				opErr = n.send(sr.headersMsg(ids))
			case "announce":
				n := sr.nodes[st.P]
				n.best = st.B
				if n.isClosed() {
					continue
				}
				if st.How == "inv" {
					inv := wire.NewMsgInv()
					h := sr.hashes[st.B]
					_ = inv.AddInvVect(wire.NewInvVect(wire.InvTypeBlock, &h))
					opErr = n.send(inv)
				} else {
					opErr = n.send(sr.headersMsg([]int{st.B}))
				}
			case "close":
				if n := sr.nodes[st.P]; n != nil {
					_ = n.conn.Close()
				}
				everClosed[st.P] = true
			case "ask":
				// the node asks the service for headers (the service as a server, C13 at the protocol level)
				n := sr.nodes[st.P]
				if n == nil || n.isClosed() {
					continue
				}
				n.mu.Lock()
				before := len(n.hdrs)
				n.mu.Unlock()
				gh := wire.NewMsgGetHeaders()
				for _, id := range st.Loc {
					var h chainhash.Hash
					if id >= 0 && id < len(sr.hashes) {
						h = sr.hashes[id]
					} else {
						h = chainhash.Hash{0xab, byte(id)}
					}
					_ = gh.AddBlockLocatorHash(&h)
				}
				if st.Stop >= 0 {
					gh.HashStop = sr.hashes[st.Stop]
				}
				if err := n.send(gh); err != nil {
					continue
				}
				sr.settle()
				n.mu.Lock()
				got := append([][]int(nil), n.hdrs[before:]...)
				n.mu.Unlock()
				res.Stats["asks"]++
				if st.Served != nil && !drifted {
					want := "no answer (the service is not current)"
					if st.Served.Sent {
						want = fmt.Sprintf("one headers message %v", append([]int{}, st.Served.Ids...))
						res.Stats["asks-answered"]++
					}
					have := "no answer (the service is not current)"
					if len(got) == 1 {
						have = fmt.Sprintf("one headers message %v", got[0])
					} else if len(got) > 1 {
						have = fmt.Sprintf("%d headers messages %v", len(got), got)
					}
					if have != want {
						miss(k, "sync-serve", fmt.Sprintf("getheaders(locator %v, stop %d) from node %d is answered with %s", st.Loc, st.Stop, st.P, want), have)
					}
				}
				continue
			case "restart":
				// the process stops and starts again on the same database file
				for p := range sr.nodes {
					everClosed[p] = true
				}
				if err := sr.restart(); err != nil {
					return fmt.Errorf("HARNESS-ERROR restart: %v", err)
				}
				continue
			}
			if opErr != nil && sr.nodes[st.P] == nil {
				// the node could not even dial (a busy machine): nothing was observed in this behaviour from here on
				shaky = true
				break
			}
			if opErr != nil && !sr.nodes[st.P].isClosed() {
				miss(k, "sync-drift", fmt.Sprintf("%s(p%d) possible", st.Op, st.P), opErr.Error())
				drifted = true
			}
			wantGH := map[int][]sentMsg{}
			wantClosed := map[int]bool{}
			for _, s := range expSent {
				if s.T == "gh" {
					wantGH[s.To] = append(wantGH[s.To], s)
				} else {
					wantClosed[s.To] = true
				}
			}
			if bannedConnect {
				wantClosed[st.P] = true // a node of a banned host is refused
			}
			deadline := time.Now().Add(12 * time.Second)
			if drifted {
				deadline = time.Now().Add(30 * time.Millisecond)
			}
			for time.Now().Before(deadline) {
				ok := true
				for p, w := range wantGH {
					n := sr.nodes[p]
					if n == nil {
						continue
					}
					n.mu.Lock()
					if len(n.got)-consumed[p] < len(w) && !(bannedConnect && p == st.P) {
						ok = false
					}
					n.mu.Unlock()
				}
				for p := range wantClosed {
					if n := sr.nodes[p]; n != nil && !n.isClosed() {
						ok = false
					}
				}
				if ok {
					break
				}
				time.Sleep(300 * time.Microsecond)
			}
			sr.settle()
			for p, n := range sr.nodes {
				n.mu.Lock()
				got := append([]sentMsg(nil), n.got[min(consumed[p], len(n.got)):]...)
				consumed[p] = len(n.got)
				closed := n.closed
				n.mu.Unlock()
				if !(bannedConnect && p == st.P) {
					ej, _ := json.Marshal(wantGH[p])
					gj, _ := json.Marshal(got)
					if len(wantGH[p]) == 0 {
						ej = []byte("null")
					}
					if len(got) == 0 {
						gj = []byte("null")
					}
					if string(ej) != string(gj) && !drifted {
						// C07: same requests from the same store position (equal locators), but a different stop hash: the checkpoint
						// cursor did not advance as the statement says (next checkpoint after a matching header, unbounded after the last)
						if w := wantGH[p]; len(w) == len(got) {
							for i := range got {
								if got[i].T == "gh" && w[i].T == "gh" && fmt.Sprint(got[i].Loc) == fmt.Sprint(w[i].Loc) && got[i].Stop != w[i].Stop {
									miss(k, "sync-contain", fmt.Sprintf("after %s(p%d,%v) the next request to node %d from locator %v stops at block %d (next checkpoint; -1 = unbounded)", st.Op, st.P, st.Ids, p, got[i].Loc, w[i].Stop), fmt.Sprintf("stop %d", got[i].Stop))
								}
							}
						}
						miss(k, "sync-drift", fmt.Sprintf("after %s(p%d,b%d,%s) node %d receives getheaders %s", st.Op, st.P, st.B, st.How, p, ej), string(gj))
						drifted = true
					}
				}
				if wantClosed[p] && !closed {
					// the specification disconnects a peer only for cause: forbidden header, checkpoint contradiction, banned host, unrequested headers
					miss(k, "sync-contain", fmt.Sprintf("after %s(p%d,b%d) the service disconnects node %d", st.Op, st.P, st.B, p), "still connected")
				}
				if !wantClosed[p] && closed && !everClosed[p] && !(st.Op == "close" && st.P == p) && !drifted {
					miss(k, "sync-drift", fmt.Sprintf("after %s(p%d) node %d stays connected", st.Op, st.P, p), "disconnected by the service")
					drifted = true
				}
				if closed {
					everClosed[p] = true
				}
			}
			// C07, stated independently of Sync.tla's mechanics: a node that delivered a NEW header which the store now holds at
			// the height of a configured checkpoint, and which is not that checkpoint, must have been disconnected
			if b.Scn.CpEnabled && (st.Op == "reply" || (st.Op == "announce" && st.How == "headers")) {
				after := sr.storedHeights()
				cpAt := map[int]int{}
				for _, c := range b.Scn.Cps {
					cpAt[sr.heights[c]] = c
				}
				delivered := st.Ids
				if st.Op == "announce" {
					delivered = []int{st.B}
				}
				for _, id := range delivered {
					_, had := before[id]
					h, has := after[id]
					if c, isCp := cpAt[h]; has && !had && isCp && c != id {
						res.Stats["checkpoint-contradictions-delivered"]++
						if n := sr.nodes[st.P]; n != nil && !n.isClosed() {
							listed := false
							for _, f := range b.Scn.Findings {
								listed = listed || f == "C1-only-next-checkpoint-compared"
							}
							if listed && !wantClosed[st.P] {
								res.Stats["finding-witness:C1-only-next-checkpoint-compared"]++
							} else if !wantClosed[st.P] {
								miss(k, "sync-contain", fmt.Sprintf("node %d delivered block %d, stored at checkpoint height %d where the checkpoint is block %d: it is disconnected", st.P, id, h, c), "still connected")
							}
						}
						break
					}
				}
			}
			gotSt, gotTip := sr.observe(nb)
			// containment (C07): a forbidden header is never stored, at any step
			for _, f := range b.Scn.Forbid {
				if gotSt[f] != "-" {
					miss(k, "sync-contain", fmt.Sprintf("forbidden block %d never stored", f), "stored as "+gotSt[f])
				}
			}
			if lastMgr != nil && !drifted && (fmt.Sprint(gotSt) != fmt.Sprint(lastMgr.St) || gotTip != lastMgr.Tip) {
				miss(k, "sync-drift", fmt.Sprintf("after %s(p%d,b%d) store %v tip %d", st.Op, st.P, st.B, lastMgr.St, lastMgr.Tip), fmt.Sprintf("%v tip %d", gotSt, gotTip))
				drifted = true
			}
		}
		// ---- outcome (C06): let every connected node answer whatever it is still asked until nothing moves, then compare
		if lastMgr != nil {
			for round := 0; round < 40; round++ {
				moved := false
				for _, n := range sr.nodes {
					if n.isClosed() {
						continue
					}
					n.mu.Lock()
					var rq *sentMsg
					if n.asked < len(n.got) {
						r := n.got[n.asked]
						rq = &r
						n.asked++
					}
					n.mu.Unlock()
					if rq != nil {
						_ = n.send(sr.headersMsg(sr.protoReply(b.Scn.Par, n.best, *rq, b.Scn.Cap)))
						moved = true
					}
				}
				sr.settle()
				if !moved {
					break
				}
			}
			gotSt, gotTip := sr.observe(nb)
			res.Stats["outcomes"]++
			// what the specification predicts for the same completion: its last state if it was already quiet with nothing
			// pending is exact; otherwise the prediction is "converges iff the as-designed engine does" and is computed by TLC
			// in the `final` record of the behaviour (see MC_Sync FinalObs)
			if b.Final != nil {
				// C06's outcome in the statement's terms: every greatest-work chain offered by a connected node is stored and
				// the reported tip has at least that work (unit work: work = height)
				hOf := func(x int) int {
					h := 0
					for x > 0 {
						x = b.Scn.Par[x-1]
						h++
					}
					return h
				}
				gotConv := true
				for _, bo := range b.Final.Best {
					if gotSt[bo] == "-" || hOf(gotTip) < hOf(bo) {
						gotConv = false
					}
				}
				if len(b.Final.Best) > 0 && b.Final.Conv {
					res.Stats["outcome:spec-converges"]++
					if !gotConv {
						miss(len(b.Hist), "sync-outcome", fmt.Sprintf("the store ends holding the best offered chain(s) %v with a tip of at least that work (store %v)", b.Final.Best, b.Final.St), fmt.Sprintf("%v tip %d", gotSt, gotTip))
					}
				} else if len(b.Final.Best) > 0 {
					res.Stats["outcome:spec-does-not-converge"]++
					if gotConv {
						res.Stats["outcome:better-than-spec"]++
					} else {
						res.Stats["finding-witness:"+b.Final.Why]++
					}
				}
				for _, p := range b.Final.Banned {
					// a banned host is refused: the node of that host must be disconnected
					if n := sr.nodes[p]; n != nil && !n.isClosed() {
						miss(len(b.Hist), "sync-contain", fmt.Sprintf("banned node %d is disconnected", p), "still connected")
					}
				}
			}
		}
		// C11 at system level: exactly one ADD event per header the engine stored, none for anything else
		if sr.events != nil && b.Scn.Name != "" && !scriptHasRestart(b.Hist) {
			deadline := time.Now().Add(10 * time.Second)
			stored := sr.storedHeights()
			for {
				seen := sr.events.Snapshot()
				bad := ""
				for id := range stored {
					if id == 0 {
						continue
					}
					if n := seen[sr.hashes[id].String()]; n != 1 {
						bad = fmt.Sprintf("block %d stored, %d ADD events", id, n)
					}
				}
				for h, n := range seen {
					id, known := sr.byHash[mustHash(h)]
					if _, has := stored[id]; !known || !has {
						bad = fmt.Sprintf("%d ADD events for %s, which is not stored", n, h)
					}
				}
				if bad == "" {
					res.Stats["notify-checked"]++
					break
				}
				if time.Now().After(deadline) {
					miss(len(b.Hist), "sync-notify", "exactly one ADD event per header the sync engine stored", bad)
					break
				}
				time.Sleep(2 * time.Millisecond)
			}
		}
		if drifted {
			res.Stats["drifted-behaviours"]++
		}
		if shaky {
			out = out[:outAtStart]
			res.Stats["inconclusive-behaviours"]++
		}
		sr.stop()
		_ = os.Remove(dbPath)
		if idx < 1 {
			res.Samples = append(res.Samples, sc.Text()[:min(len(sc.Text()), 3500)])
		}
		idx++
		if len(out) > 150 {
			break
		}
	}
	res.Behaviours, res.Mismatches, res.WallS = idx, out, time.Since(t0).Seconds()
	js, _ := json.Marshal(res)
	return os.WriteFile(os.Getenv("VERIF_OUT"), js, 0o644)
}

var closedSeen = map[*syncRig]map[int]bool{}

func (sr *syncRig) wasClosedBefore(p int) bool { return closedSeen[sr][p] }
func (sr *syncRig) markClosed(p int) {
	if closedSeen[sr] == nil {
		closedSeen[sr] = map[int]bool{}
	}
	closedSeen[sr][p] = true
}

func scriptHasRestart(h []syStep) bool {
	for _, s := range h {
		if s.Op == "restart" {
			return true // the counter belongs to the first process
		}
	}
	return false
}

func mustHash(s string) chainhash.Hash {
	h, err := chainhash.NewHashFromStr(s)
	if err != nil {
		return chainhash.Hash{}
	}
	return *h
}
