package p2p

// Conformance rig for the legacy P2P server (compiled into package p2p through the /verif build overlay; never placed
// under /repo).  VERIF_OP selects the operation:
//   admission : C18 - replay Admission.tla behaviours on the real handleAddPeerMsg / handleDonePeerMsg / handleBanPeerMsg

import (
	"bufio"
	"encoding/json"
	"errors"
	"fmt"
	"net"
	"os"
	"strconv"
	"sync/atomic"
	"testing"
	"time"

	"github.com/bitcoin-sv/block-headers-service/config"
	"github.com/bitcoin-sv/block-headers-service/internal/chaincfg"
	"github.com/bitcoin-sv/block-headers-service/internal/chaincfg/chainhash"
	chainh "github.com/bitcoin-sv/block-headers-service/internal/verifh/chain"
	"github.com/bitcoin-sv/block-headers-service/internal/wire"
	"github.com/bitcoin-sv/block-headers-service/transports/p2p/addrmgr"
	"github.com/bitcoin-sv/block-headers-service/transports/p2p/peer"
	"github.com/rs/zerolog"
)

func TestHarness(t *testing.T) {
	var err error
	switch os.Getenv("VERIF_OP") {
	case "":
		t.Skip("no VERIF_OP")
	case "admission":
		err = opAdmission()
	default:
		if f, ok := rigOps[os.Getenv("VERIF_OP")]; ok {
			err = f()
		} else {
			err = errors.New("unknown VERIF_OP")
		}
	}
	if err != nil {
		fmt.Fprintln(os.Stderr, "HARNESS-ERROR:", err)
		os.Exit(2)
	}
}

var rigOps = map[string]func() error{}

func envI(name string, def int64) int64 {
	if v := os.Getenv(name); v != "" {
		if n, err := strconv.ParseInt(v, 10, 64); err == nil {
			return n
		}
	}
	return def
}

var portSeq = 10000 + (os.Getpid()*131)%20000

// freePort picks a listen port BELOW the ephemeral range (the scripted nodes bind ephemeral ports on 127.0.0.x, and a
// wildcard listen on a port one of them holds fails), probing the wildcard address the server will listen on.
func freePort() string {
	for i := 0; i < 200; i++ {
		portSeq++
		if portSeq >= 32000 {
			portSeq = 10000
		}
		l, err := net.Listen("tcp4", ":"+strconv.Itoa(portSeq))
		if err != nil {
			continue
		}
		_ = l.Close()
		return strconv.Itoa(portSeq)
	}
	return "28444"
}

// rig is the real server over the real SQL stack, offline.
type rig struct {
	params chaincfg.Params
	stack  *chainh.Stack
	srv    *server
	log    zerolog.Logger
}

type rigOpts struct {
	checkpoints        []chaincfg.Checkpoint
	disableCheckpoints bool
	banDuration        time.Duration
}

func newRig(dbPath string, o rigOpts) (*rig, error) {
	r := &rig{log: zerolog.Nop()}
	r.params = chaincfg.RegressionNetParams
	r.params.DefaultPort = freePort()
	r.params.DNSSeeds = nil
	r.params.Checkpoints = o.checkpoints
	config.ActiveNetParams = &r.params
	if err := config.SetDefaults("verif", &r.log); err != nil {
		return nil, err
	}
	config.Lookup = func(string) ([]net.IP, error) { return nil, errors.New("verif: no dns") }
	config.Checkpoints = o.checkpoints
	cfg := chainh.NewConfig(dbPath)
	cfg.P2P.BanDuration = o.banDuration
	if cfg.P2P.BanDuration == 0 {
		cfg.P2P.BanDuration = time.Hour
	}
	cfg.P2P.DisableCheckpoints = o.disableCheckpoints
	r.stack = &chainh.Stack{Cfg: cfg}
	if err := r.stack.Open(); err != nil {
		return nil, err
	}
	srv, err := newServer(&r.params, r.stack.Svc, r.stack.Peers, cfg.P2P, &r.log)
	if err != nil {
		return nil, err
	}
	r.srv = srv
	return r, nil
}

func chainhashFromByte(b byte) *chainhash.Hash {
	var h chainhash.Hash
	for i := range h {
		h[i] = b
	}
	return &h
}

// ---------------------------------------------------------------------------------------------------------------
// scripted remote end of a connection

type fakeConn struct {
	net.Conn
	remote net.Addr
}

func (f *fakeConn) RemoteAddr() net.Addr { return f.remote }

var nonceSeq uint64

// remoteHandshake plays the remote side of the version/verack exchange and then keeps draining what the peer sends.
// skew is added to the timestamp the remote puts into its version message (a remote's clock is the remote's business);
// with noAck the remote never sends its verack (a peer that leaves, or stalls, between version and verack).
func remoteHandshake(c net.Conn, serverSideInbound bool, lastBlock int32, bsvnet wire.BitcoinNet, skew time.Duration, noAck bool) {
	me := wire.NewNetAddressIPPort(net.ParseIP("44.0.0.1"), 8333, wire.SFNodeNetwork)
	you := wire.NewNetAddressIPPort(net.ParseIP("44.0.0.2"), 8333, 0)
	ver := wire.NewMsgVersion(me, you, atomic.AddUint64(&nonceSeq, 1)+uint64(time.Now().UnixNano()), lastBlock)
	ver.AddService(wire.SFNodeNetwork)
	_ = ver.AddUserAgent("verif-node", "1.0")
	ver.ProtocolVersion = int32(wire.ProtocolVersion)
	ver.Timestamp = time.Unix(time.Now().Add(skew).Unix(), 0)
	send := func(m wire.Message) {
		if _, isAck := m.(*wire.MsgVerAck); isAck && noAck {
			return
		}
		_ = wire.WriteMessage(c, m, wire.ProtocolVersion, bsvnet)
	}
	if serverSideInbound {
		go send(ver)
	}
	sentVer := serverSideInbound
	for {
		m, _, err := wire.ReadMessage(c, wire.ProtocolVersion, bsvnet)
		if err != nil {
			var me *wire.MessageError
			if errors.As(err, &me) {
				continue
			}
			return
		}
		switch m.(type) {
		case *wire.MsgVersion:
			if !sentVer {
				sentVer = true
				go func() { send(ver); send(wire.NewMsgVerAck()) }()
			} else {
				go send(wire.NewMsgVerAck())
			}
		case *wire.MsgPing:
			p := m.(*wire.MsgPing)
			go send(wire.NewMsgPong(p.Nonce))
		}
	}
}

// ---------------------------------------------------------------------------------------------------------------
// C18 admission

type admStep struct {
	Op   string `json:"op"`
	Dir  string `json:"dir"`
	Host int    `json:"host"`
	ID   int    `json:"id"`
	Res  struct {
		Admitted bool `json:"admitted"`
		ID       int  `json:"id"`
	} `json:"res"`
	Total    int   `json:"total"`
	PerHost  []int `json:"perhost"`
	PerGroup []int `json:"pergroup"`
	IDs      []int `json:"ids"`
}

type admBeh struct {
	Hist []admStep `json:"hist"`
}

func hostIP(h int) string { return fmt.Sprintf("44.%d.0.%d", (h+1)/2, h) }

func opAdmission() error {
	in, err := os.Open(os.Getenv("VERIF_IN"))
	if err != nil {
		return err
	}
	defer in.Close()
	banDur := time.Duration(envI("VERIF_BAN_MS", 150)) * time.Millisecond
	// one (never reached) checkpoint: the sync manager then answers "not current" to the version handler of outbound peers
	cpHash := chainhashFromByte(0x42)
	r, err := newRig(os.Getenv("VERIF_DB"), rigOpts{banDuration: banDur, checkpoints: []chaincfg.Checkpoint{{Height: 1000, Hash: cpHash}}})
	if err != nil {
		return err
	}
	r.srv.syncManager.Start() // the version handler of outbound peers asks the sync manager whether the chain is current
	// the server is NOT started: the handlers are called directly on a harness-owned peerState; drain what peers push
	go func() {
		for {
			select {
			case <-r.srv.newPeers:
			case <-r.srv.donePeers:
			case <-r.srv.banPeers:
			case <-r.srv.peerHeightsUpdate:
			case <-r.srv.relayInv:
			case <-r.srv.broadcast:
			}
		}
	}()
	res := chainh.Result{DevUsed: map[string]int{}, Stats: map[string]int{}}
	var out []chainh.Mismatch
	t0 := time.Now()
	sc := bufio.NewScanner(in)
	sc.Buffer(make([]byte, 1<<20), 1<<27)
	idx := 0
	portSeq := 20000
	for sc.Scan() {
		var b admBeh
		if err := json.Unmarshal(sc.Bytes(), &b); err != nil {
			return err
		}
		state := &peerState{inboundPeers: map[int32]*serverPeer{}, persistentPeers: map[int32]*serverPeer{}, outboundPeers: map[int32]*serverPeer{},
			banned: map[string]time.Time{}, outboundGroups: map[string]int{}, connectionCount: map[string]int{}}
		byID := map[int]*serverPeer{}
		banAt := map[int]time.Time{}
		// what the model leaves open, varied by the harness: the clocks of the remotes (the timestamps of their version
		// messages feed the server's network-adjusted time: a fresh time source per behaviour, pre-seeded so that the
		// median offset jumps at the 1st..5th handshake of the behaviour, forwards or backwards by 40 minutes), and peers
		// that never send their verack (admitted on their version message, gone before the handshake completed)
		skew := time.Duration(0)
		ts := config.NewMedianTime(&r.log)
		if idx%3 != 0 {
			skew = 40 * time.Minute
			if (idx/5)%2 == 1 {
				skew = -skew
			}
			for i := 0; i < idx%5; i++ {
				ts.AddTimeSample(fmt.Sprintf("verif-seed-%d", i), time.Now().Add(skew))
			}
		}
		r.srv.timeSource = ts
		advances := 0
		miss := func(k int, kind, exp, got string) {
			out = append(out, chainh.Mismatch{Beh: idx, Step: k, Kind: kind, Exp: exp, Got: got})
		}
		unreliable := false
	steps:
		for k, st := range b.Hist {
			res.Stats["steps"]++
			res.Stats["op:"+st.Op]++
			switch st.Op {
			case "add":
				portSeq++
				sp := newServerPeer(r.srv, st.Dir == "pers", &r.log)
				c1, c2 := net.Pipe()
				ip := hostIP(st.Host)
				conn := &fakeConn{Conn: c1, remote: &net.TCPAddr{IP: net.ParseIP(ip), Port: portSeq}}
				if st.Dir == "in" {
					sp.Peer = peer.NewInboundPeer(newPeerConfig(sp))
				} else {
					p, err := peer.NewOutboundPeer(newPeerConfig(sp), net.JoinHostPort(ip, strconv.Itoa(portSeq)))
					if err != nil {
						return err
					}
					sp.Peer = p
				}
				noAck := (idx+k)%4 == 1
				go remoteHandshake(c2, st.Dir == "in", 0, r.params.Net, skew, noAck)
				sp.AssociateConnection(conn)
				deadline := time.Now().Add(5 * time.Second)
				for !(sp.VersionKnown() && (noAck || sp.VerAckReceived())) && time.Now().Before(deadline) {
					time.Sleep(100 * time.Microsecond)
				}
				if !sp.VersionKnown() {
					return fmt.Errorf("handshake of harness peer did not complete (behaviour %d step %d)", idx, k)
				}
				// timing guard: an expected refusal that is due to a ban must be asked well inside the ban
				if t, ok := banAt[st.Host]; ok && !st.Res.Admitted && time.Since(t) > banDur*6/10 {
					unreliable = true
					break steps
				}
				got := r.srv.handleAddPeerMsg(state, sp)
				if t, ok := banAt[st.Host]; ok && !st.Res.Admitted && time.Since(t) > banDur*9/10 {
					unreliable = true // the call itself was delayed to the edge of the ban: no verdict from this behaviour
					break steps
				}
				if got != st.Res.Admitted {
					miss(k, "admit", fmt.Sprintf("add(%s, host %d) admitted=%v", st.Dir, st.Host, st.Res.Admitted), fmt.Sprint(got))
				}
				if !got && sp.Connected() {
					miss(k, "admit", "refused peer is disconnected", "still connected")
				}
				if got {
					if !sp.Connected() {
						miss(k, "admit", "admitted peer stays connected", "disconnected")
					}
					byID[st.Res.ID] = sp
				} else {
					// the server's done handler also runs for peers it refused (peerDoneHandler): nothing may change
					r.srv.handleDonePeerMsg(state, sp)
				}
			case "done":
				sp := byID[st.ID]
				if sp == nil {
					break steps // follows an earlier divergence
				}
				sp.Disconnect()
				r.srv.handleDonePeerMsg(state, sp)
				delete(byID, st.ID)
			case "ban":
				p, err := peer.NewOutboundPeer(newPeerConfig(newServerPeer(r.srv, false, &r.log)), net.JoinHostPort(hostIP(st.Host), "8333"))
				if err != nil {
					return err
				}
				r.srv.handleBanPeerMsg(state, p)
				banAt[st.Host] = time.Now()
			case "advance":
				advances++
				if advances > 3 {
					break steps
				}
				time.Sleep(banDur + banDur/4 + 5*time.Millisecond)
				banAt = map[int]time.Time{}
			}
			// counters after every step
			if state.Count() != st.Total {
				miss(k, "counters", fmt.Sprintf("total %d", st.Total), fmt.Sprint(state.Count()))
			}
			for h, want := range st.PerHost {
				if got := state.connectionCount[hostIP(h+1)]; got != want {
					miss(k, "counters", fmt.Sprintf("per-host counter of host %d = %d", h+1, want), fmt.Sprint(got))
				}
			}
			for g, want := range st.PerGroup {
				key := addrmgr.GroupKey(wire.NewNetAddressIPPort(net.ParseIP(fmt.Sprintf("44.%d.0.1", g+1)), 8333, 0))
				if got := state.outboundGroups[key]; got != want {
					miss(k, "counters", fmt.Sprintf("outbound group counter of group %d = %d", g+1, want), fmt.Sprint(got))
				}
			}
			if len(out) > 200 {
				break
			}
		}
		for _, sp := range byID {
			sp.Disconnect()
		}
		if unreliable {
			res.Stats["timing-unreliable-abandoned"]++
		}
		if idx < 1 {
			res.Samples = append(res.Samples, sc.Text()[:min(len(sc.Text()), 3000)])
		}
		idx++
		if len(out) > 200 {
			break
		}
	}
	res.Behaviours, res.Steps, res.Mismatches, res.WallS = idx, res.Stats["steps"], out, time.Since(t0).Seconds()
	js, _ := json.Marshal(res)
	return os.WriteFile(os.Getenv("VERIF_OUT"), js, 0o644)
}
