package chainh

import (
	"bufio"
	"encoding/json"
	"errors"
	"fmt"
	"math/rand"
	"net"
	"os"
	"sync"
	"time"

	"github.com/bitcoin-sv/block-headers-service/transports/p2p/connmgr"
	"github.com/rs/zerolog"
)

func init() { extraOps["connmgr"] = opConnMgr }

type recConn struct {
	net.Conn
	id     uint64
	closed func(id uint64)
	once   sync.Once
}

func (c *recConn) Close() error {
	c.once.Do(func() { c.closed(c.id) })
	return c.Conn.Close()
}

// opConnMgr drives the REAL connection manager with scripted callbacks and records what it does (C18, direction B).
var settleLimit = 30 * time.Second

func opConnMgr() error {
	seed := envInt("VERIF_SEED", 1)
	nsc := int(envInt("VERIF_SCENARIOS", 20))
	f, err := os.Create(os.Getenv("VERIF_OUT"))
	if err != nil {
		return err
	}
	defer f.Close()
	w := bufio.NewWriter(f)
	defer w.Flush()
	stats := map[string]int{}
	for sci := 0; sci < nsc; sci++ {
		rng := rand.New(rand.NewSource(seed*7907 + int64(sci)))
		target := 1 + rng.Intn(8)
		var mu sync.Mutex
		emit := func(v map[string]any) { // callers hold mu
			js, _ := json.Marshal(v)
			fmt.Fprintln(w, string(js))
		}
		mu.Lock()
		emit(map[string]any{"ev": "start", "target": target})
		mu.Unlock()
		// address pool: some addresses always refuse (until they get banned), the rest accept; a failure budget
		naddr := 3 + rng.Intn(4)
		dead := map[string]bool{}
		addrs := make([]*net.TCPAddr, naddr)
		for i := range addrs {
			addrs[i] = &net.TCPAddr{IP: net.IPv4(10, 0, byte(sci%250), byte(i+1)), Port: 8333}
		}
		for i := 0; i < 1+rng.Intn(2); i++ {
			dead[addrs[rng.Intn(naddr)].String()] = true
		}
		if len(dead) == naddr {
			delete(dead, addrs[0].String())
		}
		flaky := 20 + rng.Intn(40) // additional random refusals on live addresses
		// every third scenario starts with an OUTAGE: no address can be had (sci%3==1) or every dial is refused and there is no
		// ban hook (sci%3==2), long enough for more than maxFailedAttempts (25) consecutive failures, so that replacements
		// are scheduled by the retry timer; when it ends the manager must climb back to its target
		outage := sci%3 != 0
		noAddr := sci%3 == 1
		banned := map[string]bool{}
		open := map[uint64]string{}
		reqs := map[uint64]*connmgr.ConnReq{}
		var connID uint64
		pendingID := map[net.Conn]uint64{}
		nop := zerolog.Nop()
		var cm *connmgr.ConnManager
		outageBase := stats["noaddr"] + stats["dials"]
		cfg := &connmgr.Config{
			TargetOutbound: uint32(target),
			RetryDuration:  time.Millisecond,
			Logger:         &nop,
			GetNewAddress: func() (net.Addr, error) {
				mu.Lock()
				defer mu.Unlock()
				if outage && noAddr {
					emit(map[string]any{"ev": "noaddr"})
					stats["noaddr"]++
					return nil, errors.New("no address")
				}
				var cand []*net.TCPAddr
				for _, a := range addrs {
					if !banned[a.String()] {
						cand = append(cand, a)
					}
				}
				if len(cand) == 0 {
					return nil, errors.New("no address")
				}
				// the dead ones are preferred so that they do reach the ban threshold
				for _, a := range cand {
					if dead[a.String()] && rng.Intn(3) > 0 {
						return a, nil
					}
				}
				return cand[rng.Intn(len(cand))], nil
			},
			BanAddress: func(a string) {
				mu.Lock()
				banned[a] = true
				emit(map[string]any{"ev": "ban", "addr": a})
				stats["bans"]++
				mu.Unlock()
			},
			Dial: func(a net.Addr) (net.Conn, error) {
				mu.Lock()
				defer mu.Unlock()
				ok := !dead[a.String()] && !outage
				if ok && flaky > 0 && rng.Intn(3) == 0 {
					flaky--
					ok = false
				}
				emit(map[string]any{"ev": "dial", "addr": a.String(), "ok": ok})
				stats["dials"]++
				if !ok {
					return nil, errors.New("verif: connection refused")
				}
				c1, c2 := net.Pipe()
				go func() {
					buf := make([]byte, 64)
					for {
						if _, err := c2.Read(buf); err != nil {
							return
						}
					}
				}()
				connID++
				rc := &recConn{Conn: c1, id: connID}
				rc.closed = func(id uint64) {
					mu.Lock()
					emit(map[string]any{"ev": "closed", "id": id})
					delete(open, id)
					mu.Unlock()
				}
				pendingID[rc] = connID
				return rc, nil
			},
		}
		cfg.OnConnection = func(req *connmgr.ConnReq, c net.Conn, _ *zerolog.Logger) {
			mu.Lock()
			id := pendingID[c]
			delete(pendingID, c)
			open[id] = req.Addr.String()
			reqs[id] = req
			emit(map[string]any{"ev": "connected", "id": id, "addr": req.Addr.String(), "req": req.ID()})
			stats["connected"]++
			mu.Unlock()
		}
		if outage && !noAddr {
			cfg.BanAddress = nil // failures are then counted globally (registerFailedConnection), nothing is banned
		}
		cm, err = connmgr.New(cfg)
		if err != nil {
			return err
		}
		cm.Start()
		if outage {
			// let the failures pile up well beyond the threshold, with several requests failing inside one retry interval
			for i := 0; i < 400; i++ {
				time.Sleep(time.Millisecond)
				mu.Lock()
				n := stats["noaddr"] + stats["dials"]
				mu.Unlock()
				if n-outageBase > 25*(target+2) {
					break
				}
			}
			mu.Lock()
			outage = false
			emit(map[string]any{"ev": "recovered"})
			stats["outages"]++
			mu.Unlock()
		}
		settle := func() int {
			// a quiescent point: the manager is at its target and nothing has been logged for a while (dials and retries
			// are millisecond-fast).  Slow is not stuck: on a busy machine a retry timer may fire late, so "below the
			// target" is only believed after 30 s - a manager that has lost a slot does not come back by then either.
			t0 := time.Now()
			last, lastN := time.Now(), -1
			for {
				time.Sleep(5 * time.Millisecond)
				mu.Lock()
				n := stats["dials"] + stats["connected"] + stats["bans"]
				atTarget := len(open) >= target
				mu.Unlock()
				if n != lastN {
					lastN, last = n, time.Now()
				}
				if atTarget && time.Since(last) >= 60*time.Millisecond {
					break
				}
				if time.Since(t0) > settleLimit {
					// believed once, after the full wait; the later scenarios of this run need not wait that long again
					settleLimit = 2 * time.Second
					break
				}
			}
			mu.Lock()
			defer mu.Unlock()
			return len(open)
		}
		rounds := 2 + rng.Intn(3)
		for r := 0; r < rounds; r++ {
			n := settle()
			mu.Lock()
			quiet := flaky == 0 || true
			_ = quiet
			emit(map[string]any{"ev": "quiesce", "open": n})
			stats["quiesce"]++
			// disconnect some established connections (the server reports them closed)
			var ids []uint64
			for id := range open {
				ids = append(ids, id)
			}
			mu.Unlock()
			for _, id := range ids {
				if rng.Intn(2) == 0 {
					mu.Lock()
					req := reqs[id]
					a := open[id]
					emit(map[string]any{"ev": "disconnect", "id": id, "addr": a})
					stats["disconnects"]++
					mu.Unlock()
					cm.Disconnect(req.ID())
					if rng.Intn(3) == 0 {
						// the server's done handler may report the same connection once more (outboundPeerConnected's
						// error path and then handleDonePeerMsg): a Disconnect for an id that is no longer connected
						time.Sleep(time.Duration(rng.Intn(3)) * time.Millisecond)
						mu.Lock()
						emit(map[string]any{"ev": "disconnect-again", "id": id})
						stats["repeated-disconnects"]++
						mu.Unlock()
						cm.Disconnect(req.ID())
					}
				}
			}
		}
		n := settle()
		mu.Lock()
		emit(map[string]any{"ev": "quiesce", "open": n})
		mu.Unlock()
		cm.Stop()
		time.Sleep(5 * time.Millisecond)
		stats["scenarios"]++
	}
	js, _ := json.Marshal(stats)
	return os.WriteFile(os.Getenv("VERIF_OUT")+".stats", js, 0o644)
}
