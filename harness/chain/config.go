package chainh

import (
	"encoding/json"
	"fmt"
	"os"
	"path/filepath"
	"reflect"
	"strings"
	"time"

	"github.com/bitcoin-sv/block-headers-service/config"
	"github.com/rs/zerolog"
	"github.com/spf13/viper"
)

func init() { extraOps["config"] = opConfig }

// C20: the precedence table and the database validation table emitted by TLC from Config.tla are instantiated on
// EVERY leaf key of config.AppConfig (found by reflection over the mapstructure tags) and on generated db sections.

type leaf struct {
	Key  string // dotted mapstructure path
	Path []int  // field indices (through pointers)
	Type string // string | int | bool | duration | uint16 | enum
	Kind reflect.Type
}

func leaves(t reflect.Type, prefix string, path []int, out *[]leaf) {
	if t.Kind() == reflect.Ptr {
		t = t.Elem()
	}
	for i := 0; i < t.NumField(); i++ {
		f := t.Field(i)
		tag := f.Tag.Get("mapstructure")
		if tag == "" || tag == "-" {
			continue
		}
		key := tag
		if prefix != "" {
			key = prefix + "." + tag
		}
		p := append(append([]int(nil), path...), i)
		ft := f.Type
		if ft.Kind() == reflect.Ptr {
			ft = ft.Elem()
		}
		if ft.Kind() == reflect.Struct {
			leaves(ft, key, p, out)
			continue
		}
		l := leaf{Key: key, Path: p, Kind: f.Type}
		switch {
		case f.Type == reflect.TypeOf(time.Duration(0)):
			l.Type = "duration"
		case ft.Kind() == reflect.String && ft.Name() != "string":
			l.Type = "enum"
		case ft.Kind() == reflect.String:
			l.Type = "string"
		case ft.Kind() == reflect.Bool:
			l.Type = "bool"
		case ft.Kind() == reflect.Uint16:
			l.Type = "uint16"
		case ft.Kind() == reflect.Int || ft.Kind() == reflect.Int32 || ft.Kind() == reflect.Int64:
			l.Type = "int"
		default:
			l.Type = "other:" + ft.String()
		}
		*out = append(*out, l)
	}
}

func fieldOf(cfg *config.AppConfig, l leaf) reflect.Value {
	v := reflect.ValueOf(cfg).Elem()
	for _, i := range l.Path {
		if v.Kind() == reflect.Ptr {
			v = v.Elem()
		}
		v = v.Field(i)
	}
	return v
}

func show(v reflect.Value) string { return fmt.Sprintf("%v", v.Interface()) }

// values for a key: (file value, env value), as YAML scalar / env string, and the expected rendering
func valuesFor(l leaf, def string) (fileV, envV string) {
	special := map[string][2]string{
		"logging.level": {"warn", "error"}, "logging.format": {"json", "console"}, "db.engine": {"postgres", "sqlite"},
		"p2p.chain_net_type": {"testnet", "regtest"},
	}
	if s, ok := special[l.Key]; ok {
		a, b := s[0], s[1]
		if a == def {
			a = b
		}
		if b == def || b == a {
			for _, alt := range []string{"info", "debug", "mainnet", "simnet"} {
				if (l.Key == "logging.level" && (alt == "info" || alt == "debug") || l.Key == "p2p.chain_net_type" && (alt == "mainnet" || alt == "simnet")) && alt != def && alt != a {
					b = alt
				}
			}
		}
		return a, b
	}
	switch l.Type {
	case "string", "enum":
		// values are taken verbatim: nothing in them is expanded, trimmed or interpreted
		return "file-$X ${HOME}-$$-%s #k: " + strings.ReplaceAll(l.Key, ".", "-"), "env-$Y ${PATH} %d #e: " + strings.ReplaceAll(l.Key, ".", "-")
	case "int":
		return "4242", "7373"
	case "uint16":
		return "4242", "7373"
	case "bool":
		if def == "true" {
			return "false", "false"
		}
		return "true", "true"
	case "duration":
		return "42m0s", "1m13s"
	}
	return "1", "2"
}

func writeYAML(path string, kv map[string]string) error {
	// nested YAML from dotted keys
	type node map[string]any
	root := node{}
	for k, v := range kv {
		parts := strings.Split(k, ".")
		cur := root
		for _, p := range parts[:len(parts)-1] {
			nx, ok := cur[p].(node)
			if !ok {
				nx = node{}
				cur[p] = nx
			}
			cur = nx
		}
		cur[parts[len(parts)-1]] = v
	}
	var sb strings.Builder
	var emit func(n node, ind string)
	emit = func(n node, ind string) {
		for k, v := range n {
			if c, ok := v.(node); ok {
				sb.WriteString(ind + k + ":\n")
				emit(c, ind+"  ")
			} else {
				sb.WriteString(fmt.Sprintf("%s%s: %q\n", ind, k, v))
			}
		}
	}
	emit(root, "")
	return os.WriteFile(path, []byte(sb.String()), 0o644)
}

func loadWith(dir string, file map[string]string, env map[string]string) (*config.AppConfig, error) {
	for _, e := range os.Environ() {
		if strings.HasPrefix(e, "BHS_") {
			_ = os.Unsetenv(strings.SplitN(e, "=", 2)[0])
		}
	}
	for k, v := range env {
		_ = os.Setenv("BHS_"+strings.ToUpper(strings.ReplaceAll(k, ".", "_")), v)
	}
	viper.Reset()
	nop := zerolog.Nop()
	if err := config.SetDefaults("verif", &nop); err != nil {
		return nil, err
	}
	if file != nil {
		p := filepath.Join(dir, "cfg.yaml")
		if err := writeYAML(p, file); err != nil {
			return nil, err
		}
		viper.Set(config.ConfigFilePathKey, p)
		// the file SELECTED is the file read: files of the same base name in other formats next to it are not its business
		_ = os.WriteFile(filepath.Join(dir, "cfg.json"), []byte("{}\n"), 0o644)
		_ = os.WriteFile(filepath.Join(dir, "cfg.toml"), []byte("# empty\n"), 0o644)
		_ = os.WriteFile(filepath.Join(dir, "cfg.yml"), []byte("{}\n"), 0o644)
		_ = os.WriteFile(filepath.Join(dir, "cfg"), []byte("{}\n"), 0o644)
	}
	cfg, _, err := config.Load(config.GetDefaultAppConfig())
	return cfg, err
}

func opConfig() error {
	raw, err := os.ReadFile(os.Getenv("VERIF_IN"))
	if err != nil {
		return err
	}
	var tbl struct {
		Precedence []struct {
			Type   string   `json:"type"`
			Srcs   []string `json:"srcs"`
			Expect string   `json:"expect"`
		} `json:"precedence"`
		Validation []struct {
			Row struct {
				Engine   string `json:"engine"`
				Sqlite   bool   `json:"sqlite"`
				Host     bool   `json:"host"`
				Port     bool   `json:"port"`
				User     bool   `json:"user"`
				Dbname   bool   `json:"dbname"`
				Prepared bool   `json:"prepared"`
				Ppath    bool   `json:"ppath"`
				Pexists  bool   `json:"pexists"`
				Dbexists bool   `json:"dbexists"`
			} `json:"row"`
			Accept bool `json:"accept"`
		} `json:"validation"`
	}
	if err := json.Unmarshal(raw, &tbl); err != nil {
		return err
	}
	dir := filepath.Dir(os.Getenv("VERIF_DB"))
	if err := os.Chdir(dir); err != nil { // no config.yaml here: "Config file not specified. Using defaults"
		return err
	}
	var ls []leaf
	leaves(reflect.TypeOf(config.AppConfig{}), "", nil, &ls)
	res := Result{DevUsed: map[string]int{}, Stats: map[string]int{}}
	var out []Mismatch
	t0 := time.Now()
	defCfg, err := loadWith(dir, nil, nil)
	if err != nil {
		return err
	}
	hard := config.GetDefaultAppConfig()
	for _, l := range ls {
		res.Stats["type:"+l.Type]++
		// documented default = GetDefaultAppConfig; with nothing set the loaded value must equal it
		if show(fieldOf(defCfg, l)) != show(fieldOf(hard, l)) {
			out = append(out, Mismatch{Kind: "default", Exp: l.Key + " = " + show(fieldOf(hard, l)), Got: show(fieldOf(defCfg, l))})
		}
		if strings.HasPrefix(l.Type, "other") {
			out = append(out, Mismatch{Kind: "harness", Exp: "known leaf type", Got: l.Key + " " + l.Type})
			continue
		}
		def := show(fieldOf(hard, l))
		fv, ev := valuesFor(l, def)
		for _, row := range tbl.Precedence {
			if row.Type != l.Type {
				continue
			}
			var file, env map[string]string
			for _, s := range row.Srcs {
				if s == "file" {
					file = map[string]string{l.Key: fv}
				}
				if s == "env" {
					env = map[string]string{l.Key: ev}
				}
			}
			cfg, err := loadWith(dir, file, env)
			res.Queries++
			what := fmt.Sprintf("%s (%s) sources=%v", l.Key, l.Type, row.Srcs)
			if err != nil {
				out = append(out, Mismatch{Kind: "precedence", Exp: what + " loads", Got: err.Error()})
				continue
			}
			want := map[string]string{"env": ev, "file": fv, "default": def}[row.Expect]
			got := show(fieldOf(cfg, l))
			if got != want {
				out = append(out, Mismatch{Kind: "precedence", Exp: what + " -> " + row.Expect + " value " + want, Got: got})
			}
			// every other key keeps its default
			for _, o := range ls {
				if o.Key != l.Key && show(fieldOf(cfg, o)) != show(fieldOf(hard, o)) {
					out = append(out, Mismatch{Kind: "precedence", Exp: what + ": untouched key " + o.Key + " keeps default " + show(fieldOf(hard, o)), Got: show(fieldOf(cfg, o))})
				}
			}
		}
	}
	// validation table through file and through environment
	exist := filepath.Join(dir, "prepared.csv.gz")
	_ = os.WriteFile(exist, []byte("x"), 0o644)
	for i, v := range tbl.Validation {
		r := v.Row
		b := func(on bool, val, off string) string {
			if on {
				return val
			}
			return off
		}
		dbFile := filepath.Join(dir, "not-there.db")
		if r.Dbexists {
			dbFile = filepath.Join(dir, "there.db")
			_ = os.WriteFile(dbFile, []byte{}, 0o644)
		}
		kv := map[string]string{
			"db.engine": r.Engine, "db.sqlite.file_path": b(r.Sqlite, dbFile, ""),
			"db.postgres.host": b(r.Host, "pg.example", ""), "db.postgres.port": b(r.Port, "5433", "0"),
			"db.postgres.user": b(r.User, "u", ""), "db.postgres.db_name": b(r.Dbname, "d", ""),
			"db.prepared_db": b(r.Prepared, "true", "false"),
			"db.prepared_db_file_path": b(r.Ppath, b(r.Pexists, exist, filepath.Join(dir, "missing.csv.gz")), ""),
		}
		// the non-empty settings go through the real loading path (file for even rows, environment for odd ones);
		// empty values cannot be expressed by a source (viper keeps the default), so they are set on the loaded structure
		nonEmpty := map[string]string{}
		for k, val := range kv {
			if val != "" && val != "0" {
				nonEmpty[k] = val
			}
		}
		var cfg *config.AppConfig
		var err error
		if i%2 == 0 {
			cfg, err = loadWith(dir, nonEmpty, nil)
		} else {
			cfg, err = loadWith(dir, nil, nonEmpty)
		}
		res.Queries++
		if err != nil {
			out = append(out, Mismatch{Kind: "validation", Exp: fmt.Sprintf("%+v loads", r), Got: err.Error()})
			continue
		}
		cfg.Db.Engine = config.DbEngine(r.Engine)
		if !r.Sqlite {
			cfg.Db.SQLite.FilePath = ""
		}
		if !r.Host {
			cfg.Db.Postgres.Host = ""
		}
		if !r.Port {
			cfg.Db.Postgres.Port = 0
		}
		if !r.User {
			cfg.Db.Postgres.User = ""
		}
		if !r.Dbname {
			cfg.Db.Postgres.DbName = ""
		}
		if !r.Ppath {
			cfg.Db.PreparedDbFilePath = ""
		}
		verr := cfg.Validate()
		if (verr == nil) != v.Accept {
			out = append(out, Mismatch{Kind: "validation", Exp: fmt.Sprintf("%+v accept=%v", r, v.Accept), Got: fmt.Sprint(verr)})
		}
	}
	res.Behaviours = len(ls)
	res.Steps = res.Queries
	res.Mismatches = out
	res.WallS = time.Since(t0).Seconds()
	keys := []string{}
	for _, l := range ls {
		keys = append(keys, l.Key+":"+l.Type)
	}
	res.Samples = []string{strings.Join(keys, " ")}
	js, _ := json.Marshal(res)
	return os.WriteFile(os.Getenv("VERIF_OUT"), js, 0o644)
}
