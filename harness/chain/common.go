package chainh

import (
	"time"
	"strings"
	"net"
	"os"
	"strconv"
)

// ExtraOps lets other files register operations of the harness binary.
var extraOps = map[string]func() error{}

func envInt(name string, def int64) int64 {
	if v := os.Getenv(name); v != "" {
		if n, err := strconv.ParseInt(v, 10, 64); err == nil {
			return n
		}
	}
	return def
}

// Result is what one replay process reports.
type Result struct {
	Behaviours int            `json:"behaviours"`
	Steps      int            `json:"steps"`
	Queries    int            `json:"queries"`
	Stats      map[string]int `json:"stats"`
	DevUsed    map[string]int `json:"dev_used"`
	Mismatches []Mismatch     `json:"mismatches"`
	Samples    []string       `json:"samples"`
	WallS      float64        `json:"wall_s"`
}


// EnvInt is envInt for the in-package rigs.
func EnvInt(name string, def int64) int64 { return envInt(name, def) }


// PatientListen / PatientDial: a machine that has run out of ephemeral ports (thousands of short loopback connections per
// second leave their ports in TIME_WAIT for a minute) answers "address already in use" / "cannot assign requested
// address"; that says nothing about the code under test - wait for ports to come back, up to three minutes.
func PatientListen(network, addr string) (net.Listener, error) {
	var ln net.Listener
	var err error
	for t0 := time.Now(); ; {
		if ln, err = net.Listen(network, addr); err == nil || !portsExhausted(err) || time.Since(t0) > 3*time.Minute {
			return ln, err
		}
		time.Sleep(500 * time.Millisecond)
	}
}

// PatientDial dials with the given dialer, waiting for ports as PatientListen does.
func PatientDial(d *net.Dialer, network, addr string) (net.Conn, error) {
	var c net.Conn
	var err error
	for t0 := time.Now(); ; {
		if c, err = d.Dial(network, addr); err == nil || !portsExhausted(err) || time.Since(t0) > 3*time.Minute {
			return c, err
		}
		time.Sleep(500 * time.Millisecond)
	}
}

func portsExhausted(err error) bool {
	s := err.Error()
	return strings.Contains(s, "address already in use") || strings.Contains(s, "cannot assign requested address")
}
