package chainh

import (
	"os"
	"strconv"
)

// ExtraOps lets other files register operations of the harness binary.
var extraOps = map[string]func() error{}

func envInt(name string, def int64) int64 {
	if v := os.Getenv(name); v != "" {
		if n, err := strconv.ParseInt(v, 10, 64); err == nil {
			return n
		}
	}
	return def
}

// Result is what one replay process reports.
type Result struct {
	Behaviours int            `json:"behaviours"`
	Steps      int            `json:"steps"`
	Queries    int            `json:"queries"`
	Stats      map[string]int `json:"stats"`
	DevUsed    map[string]int `json:"dev_used"`
	Mismatches []Mismatch     `json:"mismatches"`
	Samples    []string       `json:"samples"`
	WallS      float64        `json:"wall_s"`
}


// EnvInt is envInt for the in-package rigs.
func EnvInt(name string, def int64) int64 { return envInt(name, def) }
