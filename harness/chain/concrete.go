package chainh

import (
	"sort"
	"crypto/sha256"
	"encoding/binary"
	"encoding/json"
	"fmt"
	"math"
	"math/big"
	"math/rand"
	"time"

	"github.com/bitcoin-sv/block-headers-service/domains"
	"github.com/bitcoin-sv/block-headers-service/internal/chaincfg/chainhash"
)

// Step is one step of a TLC-generated behaviour (appendix A.1 of DESIGN.md).
type Step struct {
	Op     string   `json:"op"`
	ID     int      `json:"id"`
	Parent int      `json:"parent"`
	Work   int      `json:"work"`
	Root   int      `json:"root"`
	Forb   bool     `json:"forb"`
	Res    string   `json:"res"`
	Dev    string   `json:"dev"`
	St     []string `json:"st"`
	Ht     []int    `json:"ht"`
	Cum    []int    `json:"cum"`
	Tip    int      `json:"tip"`
	Fault  string   `json:"fault"`
	// optional per-step query table
	Q []Query `json:"q"`
}

// Query is one expected answer of a read endpoint.
type Query struct {
	K string          `json:"k"`
	A json.RawMessage `json:"a"`
	R json.RawMessage `json:"r"`
}

// Behaviour is one line emitted by TLC.
type Behaviour struct {
	Hist []Step  `json:"hist"`
	Q    []Query `json:"q"`
}

// Concrete is the concretisation of one behaviour: abstract ids -> real 80-byte headers.
type Concrete struct {
	Hdr     map[int]*RawHeader
	Hash    map[int][32]byte // also for ids that never arrive (random hashes)
	HashStr map[int]string
	ByHash  map[string]int
	Decl    map[int]Step
	Unit    *big.Int // real work of work class 1 in this behaviour
	seed    int64
}

var zeroWorkBits = []uint32{0x00000000, 0x00800000, 0x04800001, 0x01003456, 0xff7fffff, 0x21010000, 0x03000000, 0x1d800001}
var workBits = map[int]uint32{1: 0x037fffff, 2: 0x033fffff, 4: 0x031fffff}
var versions = []int32{1, 2, 4, 0x20000000, -1, math.MinInt32, math.MaxInt32, 0}
var times = []uint32{0, 1, 1231006505, math.MaxInt32, math.MaxInt32 + 1, math.MaxUint32, 1700000000}
var nonces = []uint32{0, 1, math.MaxUint32, 2083236893}

// RootBytes is the merkle root of a root class.
func RootBytes(seed int64, class int) [32]byte {
	return sha256.Sum256([]byte(fmt.Sprintf("verif-root/%d/%d", seed, class)))
}

// UnknownHash is a hash no header has.
func UnknownHash(seed int64, tag int) [32]byte {
	return sha256.Sum256([]byte(fmt.Sprintf("verif-unknown/%d/%d", seed, tag)))
}

// Concretise builds real headers for every id declared in the behaviour, parents first.
func Concretise(b *Behaviour, genesis [32]byte, seed int64) *Concrete {
	c := &Concrete{Hdr: map[int]*RawHeader{}, Hash: map[int][32]byte{}, HashStr: map[int]string{}, ByHash: map[string]int{}, Decl: map[int]Step{}, seed: seed}
	for _, s := range b.Hist {
		if s.Op == "add" {
			c.Decl[s.ID] = s
		}
	}
	c.Hash[0] = genesis
	// Magnitudes of work.  Work classes 1, 2, 4 are 2^233, 2^234, 2^235 (exact multiples, as the specification's integer
	// arithmetic needs).  A history made of class-1 headers only has no need for exact ratios between classes, so it is
	// also run with other units: 2 (regtest), 2^31-1, about 2^62.5 (cumulated work then crosses 2^63, 2^64 and 10^20 within
	// fifteen headers) - the stored decimal strings then have 1, 10, 19-20 and 71 digits.
	unitBits := workBits[1]
	allOne := len(c.Decl) > 0
	for _, s := range c.Decl {
		if s.Work != 1 {
			allOne = false
		}
	}
	if allOne {
		v := (uint64(seed)*2654435761 + uint64(len(c.Decl))*40503) >> 7
		unitBits = []uint32{workBits[1], 0x207fffff, 0x1d020000, 0x1902d413}[v%4]
	}
	c.Unit = WorkOfBits(unitBits)
	CurUnit = c.Unit
	taken := map[[32]byte]bool{genesis: true}
	var build func(id int, depth int) [32]byte
	build = func(id int, depth int) [32]byte {
		if h, ok := c.Hash[id]; ok {
			return h
		}
		s, ok := c.Decl[id]
		if !ok || depth > 10000 {
			h := UnknownHash(seed, id)
			c.Hash[id] = h
			return h
		}
		prev := build(s.Parent, depth+1)
		r := rand.New(rand.NewSource(seed*1000003 + int64(id)*7919))
		pick32 := func(pool []uint32) uint32 {
			if r.Intn(3) == 0 {
				return r.Uint32()
			}
			return pool[r.Intn(len(pool))]
		}
		h := &RawHeader{Prev: prev, Merkle: RootBytes(seed, s.Root)}
		if r.Intn(3) == 0 {
			h.Version = int32(r.Uint32())
		} else {
			h.Version = versions[r.Intn(len(versions))]
		}
		h.Time = pick32(times)
		h.Nonce = pick32(nonces)
		if s.Work == 0 {
			h.Bits = zeroWorkBits[r.Intn(len(zeroWorkBits))]
		} else if allOne {
			h.Bits = unitBits
		} else {
			h.Bits = workBits[s.Work]
		}
		// two abstract ids are two headers: siblings that share the merkle-root class and the work class and happen to draw
		// the same version, time and nonce from the small pools of edge values would be ONE header (and the second would be
		// answered "duplicate") - the nonce is drawn again until the hash is new
		hh := h.Hash()
		for taken[hh] {
			h.Nonce = r.Uint32()
			hh = h.Hash()
		}
		taken[hh] = true
		c.Hdr[id] = h
		c.Hash[id] = hh
		return hh
	}
	ids := make([]int, 0, len(c.Decl))
	for id := range c.Decl {
		ids = append(ids, id)
	}
	sort.Ints(ids) // (the re-drawn nonces then do not depend on map order)
	for _, id := range ids {
		build(id, 0)
	}
	for id, h := range c.Hash {
		s := HexRev(h)
		c.HashStr[id] = s
		c.ByHash[s] = id
	}
	return c
}

// HashOf returns the display hash of an abstract id (a stable unknown hash for undeclared ids).
func (c *Concrete) HashOf(id int) string {
	if s, ok := c.HashStr[id]; ok {
		return s
	}
	h := UnknownHash(c.seed, id)
	c.Hash[id] = h
	s := HexRev(h)
	c.HashStr[id] = s
	c.ByHash[s] = id
	return s
}

// Source converts a concrete header into the service's input type.
func (c *Concrete) Source(id int) domains.BlockHeaderSource {
	h := c.Hdr[id]
	return domains.BlockHeaderSource{
		Version:    h.Version,
		PrevBlock:  chainhash.Hash(h.Prev),
		MerkleRoot: chainhash.Hash(h.Merkle),
		Timestamp:  time.Unix(int64(h.Time), 0),
		Bits:       h.Bits,
		Nonce:      h.Nonce,
	}
}

// RealWork is work class * the unit of the behaviour being replayed (2^233 unless the history is class-1 only).
func RealWork(class int) *big.Int { return new(big.Int).Mul(big.NewInt(int64(class)), CurUnit) }

var _ = binary.LittleEndian
