package chainh

import (
	"strconv"
	"github.com/jmoiron/sqlx"
	"errors"
	"os"
	"encoding/json"
	"fmt"
	"math/big"
	"sort"
	"strings"
	"time"

	"github.com/bitcoin-sv/block-headers-service/domains"
	"github.com/bitcoin-sv/block-headers-service/internal/chaincfg"
	"github.com/bitcoin-sv/block-headers-service/internal/chaincfg/chainhash"
	"github.com/bitcoin-sv/block-headers-service/repository"
	"github.com/bitcoin-sv/block-headers-service/service"
)

// Mismatch is one divergence between the specification's expectation and the real stack.
type Mismatch struct {
	Beh   int    `json:"beh"`
	Step  int    `json:"step"`
	Kind  string `json:"kind"`
	Exp   string `json:"exp"`
	Got   string `json:"got"`
	Dev   string `json:"dev,omitempty"`   // deviation used at or before this step
	Stale bool   `json:"stale,omitempty"` // observed the IDEAL answer where a listed deviation was expected
}

var stName = map[string]string{"L": "LONGEST_CHAIN", "S": "STALE", "O": "ORPHAN"}

// Replayer executes behaviours against one Stack.
type Replayer struct {
	S       *Stack
	Fault   *FaultRepo
	Params  *chaincfg.Params
	Genesis [32]byte
	GenWork *big.Int
	Seed    int64
	Level   int // 0 = labels only, 1 = + fields through service and HTTP
	Out     []Mismatch
	Steps   int
	Queries int
	Stats   map[string]int
	Notify  bool // C11: register recording channels and compare the events
	cur     int
	devSeen string
}

// NewReplayer opens the stack on dbPath.
func NewReplayer(dbPath string, seed int64) (*Replayer, error) {
	s := &Stack{Cfg: NewConfig(dbPath), Path: dbPath}
	fr := &FaultRepo{}
	s.Decorate = func(h repository.Headers) repository.Headers { fr.Headers = h; return fr }
	if err := s.Open(); err != nil {
		return nil, err
	}
	p := s.Cfg.P2P.GetNetParams()
	r := &Replayer{S: s, Fault: fr, Params: p, Seed: seed, Level: 1}
	fr.Row = os.Getenv("VERIF_ROWFAULT") == "1"
	fr.Exec = func(q string) error { _, err := s.DB.Exec(q); return err }
	fr.Hold = func() (func(), error) {
		db2, err := sqlx.Open("sqlite3", fmt.Sprintf("file:%s?_foreign_keys=true", dbPath))
		if err != nil {
			return nil, err
		}
		rows, err := db2.Query("SELECT hash FROM headers")
		if err != nil {
			_ = db2.Close()
			return nil, err
		}
		rows.Next() // the cursor stays open: a shared lock on the database file
		return func() { _ = rows.Close(); _ = db2.Close() }, nil
	}
	bh := p.GenesisBlock.Header
	raw := RawHeader{Version: bh.Version, Prev: bh.PrevBlock, Merkle: bh.MerkleRoot, Time: uint32(bh.Timestamp.Unix()), Bits: bh.Bits, Nonce: bh.Nonce}
	r.Genesis = raw.Hash()
	r.GenWork = GenesisWork(p)
	return r, nil
}

func (r *Replayer) miss(step int, kind, exp, got string) {
	r.Out = append(r.Out, Mismatch{Beh: r.cur, Step: step, Kind: kind, Exp: exp, Got: got, Dev: r.devSeen})
}

// addResult classifies the answer of Chains.Add.
func addResult(h *domains.BlockHeader, err error) string {
	switch {
	case err == nil && h != nil:
		for k, v := range stName {
			if string(h.State) == v {
				return k
			}
		}
		return "state:" + string(h.State)
	case err == nil:
		return "nil,nil"
	case service.HeaderAlreadyExists.Is(err):
		return "duplicate"
	case service.BlockRejected.Is(err):
		return "forbidden"
	default:
		return "error:" + strings.SplitN(err.Error(), ":", 2)[0]
	}
}

// SafeAdd calls Chains.Add and converts a panic into an observation.
func SafeAdd(ch service.Chains, src domains.BlockHeaderSource) (h *domains.BlockHeader, err error, crashed string) {
	defer func() {
		if x := recover(); x != nil {
			if killed(x) {
				crashed = "killed"
			} else {
				crashed = fmt.Sprint(x)
			}
		}
	}()
	h, err = ch.Add(src)
	return
}

// errWedged: the service no longer answers (an Add hangs); the process cannot go on, what was found so far is reported
var errWedged = errors.New("the service is wedged")

// Run replays one behaviour; idx identifies it in the mismatch records.
func (r *Replayer) Run(idx int, b *Behaviour) error {
	r.cur = idx
	r.devSeen = ""
	var rig *NotifyRig
	var expEv []evRec
	diverged := false
	if r.Notify {
		r.S.Close()
		if err := r.S.Open(); err != nil {
			return err
		}
	}
	if err := r.S.Reset(); err != nil {
		return err
	}
	if r.Notify {
		rig = r.attachNotify(idx)
	}
	finishRig := func(k int) {
		if rig == nil {
			return
		}
		// 1. while one channel still blocks: every OTHER channel has received everything (independence)
		rig.waitCounts(len(expEv), 20*time.Second)
		time.Sleep(2 * time.Millisecond)
		for _, name := range rig.order {
			if name == "bad-block" {
				continue
			}
			got := rig.recs[name].snapshot()
			if d := diffEvents(expEv, got); d != "" {
				r.miss(k, "events", fmt.Sprintf("channel %s (while another channel is blocked): %d events %v", name, len(expEv), expEv), d)
			}
		}
		// 2. the blocked channel is released: it, too, ends with every event exactly once
		close(rig.release)
		rig.waitAll(len(expEv), 20*time.Second)
		time.Sleep(2 * time.Millisecond)
		for _, name := range rig.order {
			got := rig.recs[name].snapshot()
			if d := diffEvents(expEv, got); d != "" && (name == "bad-block" || len(got) > len(expEv)) {
				r.miss(k, "events", fmt.Sprintf("channel %s: %d events %v", name, len(expEv), expEv), d)
			}
		}
		r.Stats["events-expected"] += len(expEv)
		for _, f := range rig.cleanup {
			f()
		}
		rig, expEv = nil, nil
	}
	c := Concretise(b, r.Genesis, r.Seed+int64(idx))
	var forb []*chainhash.Hash
	for id, s := range c.Decl {
		if s.Forb {
			h := chainhash.Hash(c.Hash[id])
			forb = append(forb, &h)
		}
	}
	r.Params.HeadersToIgnore = forb
	defer func() { r.Params.HeadersToIgnore = nil }()

	if r.Stats == nil {
		r.Stats = map[string]int{}
	}
	var prevSt []string
	for k, st := range b.Hist {
		r.Steps++
		r.Stats["res:"+st.Res]++
		for i := range prevSt {
			if i < len(st.St) && prevSt[i] == "L" && st.St[i] == "S" {
				r.Stats["reorg-steps"]++
				break
			}
		}
		prevSt = st.St
		if st.Dev != "" {
			r.devSeen = st.Dev
		}
		switch st.Op {
		case "add", "resubmit":
			r.Fault.Arm(st.Fault)
			var h *domains.BlockHeader
			var err error
			var crashed string
			if rig == nil {
				h, err, crashed = SafeAdd(r.S.Svc.Chains, c.Source(st.ID))
			} else {
				// C11 "ingestion never waits": with a channel that blocks for ever attached, Add still returns
				type addRes struct {
					h       *domains.BlockHeader
					err     error
					crashed string
				}
				ch := make(chan addRes, 1)
				src := c.Source(st.ID)
				go func() { a, b2, c2 := SafeAdd(r.S.Svc.Chains, src); ch <- addRes{a, b2, c2} }()
				select {
				case x := <-ch:
					h, err, crashed = x.h, x.err, x.crashed
				case <-time.After(180 * time.Second):
					r.miss(k, "ingestion-blocked", fmt.Sprintf("Add of header %d returns while a notification channel is blocked (%d headers stored so far)", st.ID, k), "no answer within 180 s")
					return errWedged
				}
			}
			r.Fault.Arm("")
			got := addResult(h, err)
			if crashed == "killed" {
				got = "killed"
				crashed = ""
			} else if crashed != "" {
				got = "crash:" + crashed
			}
			if st.Fault != "" && st.Fault != "none" {
				r.Stats["fault:"+strings.SplitN(st.Fault, "@", 2)[0]]++
			}
			if got != st.Res {
				m := Mismatch{Beh: idx, Step: k, Kind: "result", Exp: st.Res, Got: got, Dev: r.devSeen}
				if st.Dev != "" && st.Dev == "ZeroWorkTipExtension" && got == "S" {
					m.Stale = true
				}
				r.Out = append(r.Out, m)
				if crashed != "" {
					// the store may be half-updated; stop this behaviour
					return nil
				}
			}
			if st.Op == "add" && err == nil && h != nil && r.Level > 0 {
				r.checkReturned(k, c, st.ID, h)
			}
			if st.Op == "add" && got == st.Res && (got == "L" || got == "S" || got == "O") && (r.cur+k)%4 == 0 && os.Getenv("VERIF_METRICS") == "1" {
				r.checkMetrics(k, c, &st)
			}
		case "restart":
			finishRig(k)
			if st.Fault == "kill@genesis" {
				// the FIRST start was killed after its migrations and before its genesis insert: a migrated database with an
				// empty headers table is what this start finds
				if _, err := r.S.DB.Exec("DELETE FROM headers"); err != nil {
					return fmt.Errorf("HARNESS-ERROR emptying the table: %v", err)
				}
				r.Stats["fault:kill"]++
				r.Stats["fault:kill-first-start"]++
			}
			r.S.Close()
			if err := r.S.Open(); err != nil {
				r.miss(k, "restart", "reopen ok", err.Error())
				return err
			}
			if r.Notify {
				rig = r.attachNotify(idx + k)
			}
		default:
			return fmt.Errorf("unknown op %q", st.Op)
		}
		if rig != nil && (st.Op == "add" || st.Op == "resubmit") {
			if lab, ok := stName[st.Res]; ok {
				raw := c.Hdr[st.ID]
				expEv = append(expEv, evRec{Op: "ADD", Height: int32(st.Ht[st.ID]), Hash: c.HashOf(st.ID), Ver: raw.Version, Merkle: HexRev(raw.Merkle),
					Time: int64(raw.Time), Nonce: raw.Nonce, State: lab, Work: r.realCum(st.Cum[st.ID], st.Res == "O"), Prev: HexRev(raw.Prev)})
			}
			rig.waitCounts(len(expEv), 20*time.Second)
		}
		// once the table has diverged from the specification, later table comparisons would only repeat the divergence; the
		// answers are still asked and compared with what the specification's store owes: a read property is stated about the
		// longest chain as DEFINED (greatest cumulative work), not about whatever the store happens to be labelled with
		if !diverged {
			if bad := r.checkTable(k, c, &st); bad {
				diverged = true
				if rig != nil {
					finishRig(k)
					return nil
				}
			}
		}
		for _, q := range st.Q {
			r.Queries++
			r.runQuery(k, c, &q)
		}
	}
	finishRig(len(b.Hist))
	if len(b.Q) > 0 {
		before, _ := r.S.Digest()
		for i := range b.Q {
			r.Queries++
			r.runQuery(len(b.Hist), c, &b.Q[i])
		}
		after, _ := r.S.Digest()
		if before != after {
			r.miss(len(b.Hist), "reads-wrote", before, after)
		}
		// the same reads once more while ANOTHER connection has a header insert in flight (a write transaction that has not
		// committed: what the sync does to the store all the time): every answer is the answer of the committed store
		if r.cur%3 == 1 && r.cur%8 != 0 && r.Fault.Kind == "" && os.Getenv("VERIF_INFLIGHT") != "0" {
			if release, err := r.writeInFlight(); err == nil {
				n0 := len(r.Out)
				for i := range b.Q {
					if k := b.Q[i].K; k == "export" || k == "import" {
						continue
					}
					r.Queries++
					r.runQuery(len(b.Hist), c, &b.Q[i])
				}
				release()
				for i := n0; i < len(r.Out); i++ {
					r.Out[i].Exp = "[while a header insert is in flight on another connection] " + r.Out[i].Exp
				}
				r.Stats["reads-with-write-in-flight"]++
			} else {
				r.Stats["write-in-flight-skipped"]++
			}
		}
	}
	return nil
}

// writeInFlight opens a write transaction on a second connection and inserts a header row without committing.
func (r *Replayer) writeInFlight() (func(), error) {
	// (a connection of the service's own pool, as chainService.Add uses one)
	tx, err := r.S.DB.Begin()
	if err != nil {
		return nil, err
	}
	_, err = tx.Exec("INSERT INTO headers(hash, height, version, merkleroot, nonce, bits, header_state, chainwork, previous_block, timestamp, cumulated_work) VALUES(?,?,?,?,?,?,?,?,?,?,?)",
		strings.Repeat("fe", 32), 4242, 1, strings.Repeat("ed", 32), 7, 545259519, "LONGEST_CHAIN", "2", strings.Repeat("00", 32), time.Unix(1700000000, 0), "999999")
	if err != nil {
		_ = tx.Rollback()
		return nil, err
	}
	return func() { _ = tx.Rollback() }, nil
}

func (r *Replayer) realCum(abs int, orphan bool) string {
	v := new(big.Int).Mul(big.NewInt(int64(abs)), CurUnit)
	if !orphan {
		v.Add(v, r.GenWork)
	}
	return v.String()
}

// checkReturned compares the header returned by Add with what was submitted.
func (r *Replayer) checkReturned(k int, c *Concrete, id int, h *domains.BlockHeader) {
	raw := c.Hdr[id]
	if h.Hash.String() != c.HashStr[id] {
		r.miss(k, "returned-hash", c.HashStr[id], h.Hash.String())
	}
	if h.Version != raw.Version || h.Bits != raw.Bits || h.Nonce != raw.Nonce || uint32(h.Timestamp.Unix()) != raw.Time ||
		h.MerkleRoot != chainhash.Hash(raw.Merkle) || h.PreviousBlock != chainhash.Hash(raw.Prev) {
		r.miss(k, "returned-fields", fmt.Sprintf("%+v", *raw), fmt.Sprintf("%+v", *h))
	}
}

// checkTable compares the whole headers table (and the tip, and the derived fields) with the expectation.
func (r *Replayer) checkTable(k int, c *Concrete, st *Step) bool {
	rows, err := r.S.Rows()
	if err != nil {
		r.miss(k, "rows", "readable table", err.Error())
		return true
	}
	bad := false
	want := 0
	for id, lab := range st.St {
		hs := c.HashOf(id)
		row, ok := rows[hs]
		if lab == "-" {
			if ok {
				r.miss(k, "rows", fmt.Sprintf("id %d absent", id), "present as "+row.State)
				bad = true
			}
			continue
		}
		want++
		if !ok {
			r.miss(k, "rows", fmt.Sprintf("id %d %s", id, lab), "absent")
			bad = true
			continue
		}
		if row.State != stName[lab] {
			r.miss(k, "label", fmt.Sprintf("id %d %s", id, stName[lab]), row.State)
			bad = true
		}
		if row.Height != st.Ht[id] {
			r.miss(k, "height", fmt.Sprintf("id %d height %d", id, st.Ht[id]), fmt.Sprint(row.Height))
			bad = true
		}
		if exp := r.realCum(st.Cum[id], lab == "O"); row.Cum != exp {
			r.miss(k, "cumwork", fmt.Sprintf("id %d cum %s", id, exp), row.Cum)
			bad = true
		}
		if id != 0 {
			raw := c.Hdr[id]
			d := c.Decl[id]
			expw := RealWork(d.Work).String()
			if row.Chainwork != expw {
				r.miss(k, "chainwork", fmt.Sprintf("id %d work %s (bits %08x)", id, expw, raw.Bits), row.Chainwork)
				bad = true
			}
			if row.Prev != HexRev(raw.Prev) || row.Merkle != HexRev(raw.Merkle) || row.Version != int64(raw.Version) ||
				row.Nonce != int64(raw.Nonce) || row.Bits != int64(raw.Bits) || row.Timestamp.Unix() != int64(raw.Time) {
				r.miss(k, "fields", fmt.Sprintf("id %d %+v", id, *raw), fmt.Sprintf("%+v", row))
				bad = true
			}
		}
	}
	if len(rows) != want {
		r.miss(k, "rows", fmt.Sprintf("%d rows", want), fmt.Sprintf("%d rows", len(rows)))
		bad = true
	}
	// tip through the service
	tip := r.S.Svc.Headers.GetTip()
	if tip == nil {
		r.miss(k, "tip", c.HashOf(st.Tip), "nil")
		return true
	}
	if tip.Hash.String() != c.HashOf(st.Tip) {
		r.miss(k, "tip", fmt.Sprintf("id %d", st.Tip), fmt.Sprintf("id %d (%s)", c.ByHash[tip.Hash.String()], tip.State))
		bad = true
	}
	if r.Level > 0 {
		r.checkServiceViews(k, c, st)
	}
	return bad
}

type hdrJSON struct {
	Hash    string `json:"hash"`
	Version int32  `json:"version"`
	Prev    string `json:"prevBlockHash"`
	Merkle  string `json:"merkleRoot"`
	Time    uint32 `json:"creationTimestamp"`
	Bits    uint32 `json:"difficultyTarget"`
	Nonce   uint32 `json:"nonce"`
	Work    NumStr `json:"work"`
}

// NumStr accepts a JSON number or a JSON string holding a number (the API uses both for work values).
type NumStr string

// UnmarshalJSON strips optional quotes.
func (n *NumStr) UnmarshalJSON(b []byte) error {
	*n = NumStr(strings.Trim(string(b), `"`))
	return nil
}
type stateJSON struct {
	Header    hdrJSON     `json:"header"`
	State     string      `json:"state"`
	ChainWork NumStr      `json:"chainWork"`
	Height    int         `json:"height"`
}

func (r *Replayer) expHdr(c *Concrete, id int) hdrJSON {
	if id == 0 {
		g := r.Params.GenesisBlock.Header
		return hdrJSON{Hash: c.HashOf(0), Version: 1, Prev: (chainhash.Hash{}).String(), Merkle: g.MerkleRoot.String(), Time: uint32(g.Timestamp.Unix()), Bits: g.Bits, Nonce: g.Nonce, Work: NumStr(r.GenWork.String())}
	}
	raw := c.Hdr[id]
	return hdrJSON{Hash: c.HashOf(id), Version: raw.Version, Prev: HexRev(raw.Prev), Merkle: HexRev(raw.Merkle), Time: raw.Time, Bits: raw.Bits, Nonce: raw.Nonce, Work: NumStr(RealWork(c.Decl[id].Work).String())}
}

// checkServiceViews reads every stored header through the service and the HTTP API (C03, part of C01's observation points).
func (r *Replayer) checkServiceViews(k int, c *Concrete, st *Step) {
	// tip/longest over HTTP
	code, body := r.S.HTTP("GET", "/api/v1/chain/tip/longest", nil, nil)
	var ts stateJSON
	if code != 200 || json.Unmarshal(body, &ts) != nil {
		r.miss(k, "http-tip", "200 + tip json", fmt.Sprintf("%d %s", code, body))
	} else {
		if ts.Header.Hash != c.HashOf(st.Tip) || ts.State != "LONGEST_CHAIN" {
			r.miss(k, "http-tip", fmt.Sprintf("id %d LONGEST_CHAIN", st.Tip), string(body))
		} else if ts.Height != st.Ht[st.Tip] || string(ts.ChainWork) != r.realCum(st.Cum[st.Tip], false) {
			r.miss(k, "http-tip-fields", fmt.Sprintf("id %d h %d cum %s", st.Tip, st.Ht[st.Tip], r.realCum(st.Cum[st.Tip], false)), string(body))
		}
	}
	for id, lab := range st.St {
		hs := c.HashOf(id)
		h, err := r.S.Svc.Headers.GetHeaderByHash(hs)
		if lab == "-" {
			if err == nil && h != nil {
				r.miss(k, "svc-byhash", fmt.Sprintf("id %d not found", id), "found")
			}
			code, body := r.S.HTTP("GET", "/api/v1/chain/header/"+hs, nil, nil)
			if code != 404 {
				r.miss(k, "http-byhash", fmt.Sprintf("id %d 404", id), fmt.Sprintf("%d %s", code, body))
			}
			continue
		}
		if err != nil || h == nil {
			r.miss(k, "svc-byhash", fmt.Sprintf("id %d found", id), fmt.Sprint(err))
			continue
		}
		e := r.expHdr(c, id)
		got := hdrJSON{Hash: h.Hash.String(), Version: h.Version, Prev: h.PreviousBlock.String(), Merkle: h.MerkleRoot.String(), Time: uint32(h.Timestamp.Unix()), Bits: h.Bits, Nonce: h.Nonce, Work: NumStr(h.Chainwork.String())}
		if got != e || int(h.Height) != st.Ht[id] || string(h.State) != stName[lab] || h.CumulatedWork.String() != r.realCum(st.Cum[id], lab == "O") {
			r.miss(k, "svc-byhash", fmt.Sprintf("%+v h=%d %s cum=%s", e, st.Ht[id], lab, r.realCum(st.Cum[id], lab == "O")), fmt.Sprintf("%+v h=%d %s cum=%s", got, h.Height, h.State, h.CumulatedWork))
		}
		// HTTP only for the header this step touched and the tip (cost)
		if id == st.ID || id == st.Tip {
			code, body := r.S.HTTP("GET", "/api/v1/chain/header/state/"+hs, nil, nil)
			var sj stateJSON
			if code != 200 || json.Unmarshal(body, &sj) != nil {
				r.miss(k, "http-state", "200", fmt.Sprintf("%d %s", code, body))
			} else {
				if sj.State != stName[lab] {
					r.miss(k, "http-state-label", fmt.Sprintf("id %d %s", id, stName[lab]), sj.State)
				}
				if sj.Header != e || sj.Height != st.Ht[id] || string(sj.ChainWork) != r.realCum(st.Cum[id], lab == "O") {
					r.miss(k, "http-state-fields", fmt.Sprintf("%+v h=%d cum=%s", e, st.Ht[id], r.realCum(st.Cum[id], lab == "O")), string(body))
				}
			}
			code, body = r.S.HTTP("GET", "/api/v1/chain/header/"+hs, nil, nil)
			var hj hdrJSON
			if code != 200 || json.Unmarshal(body, &hj) != nil || hj != e {
				r.miss(k, "http-byhash", fmt.Sprintf("%+v", e), fmt.Sprintf("%d %s", code, body))
			}
		}
	}
}


// diffEvents compares two event multisets; "" when equal.
func diffEvents(exp, got []evRec) string {
	key := func(e evRec) string { return fmt.Sprintf("%+v", e) }
	a := make([]string, len(exp))
	for i, e := range exp {
		a[i] = key(e)
	}
	b := make([]string, len(got))
	for i, e := range got {
		b[i] = key(e)
	}
	sort.Strings(a)
	sort.Strings(b)
	if strings.Join(a, "|") == strings.Join(b, "|") {
		return ""
	}
	return fmt.Sprintf("%d events %v", len(got), got)
}

// checkMetrics: the /metrics endpoint as an observation of ingestion (outside the listed properties: reported as a note).
// After a header has been stored with state s, latest_block_height{state=s} is its height and latest_block_timestamp its
// time; for s = LONGEST_CHAIN that header is the tip, so the gauge is the tip height.
func (r *Replayer) checkMetrics(k int, c *Concrete, st *Step) {
	code, body := r.S.HTTP("GET", "/metrics", nil, nil)
	if code != 200 {
		r.miss(k, "metrics", "GET /metrics answers 200", fmt.Sprint(code))
		return
	}
	state := stName[st.Res]
	wantH := fmt.Sprint(st.Ht[st.ID])
	wantT := fmt.Sprint(int64(c.Hdr[st.ID].Time))
	gotH, gotT := "absent", "absent"
	for _, line := range strings.Split(string(body), "\n") {
		if strings.HasPrefix(line, "#") || !strings.Contains(line, `state="`+state+`"`) {
			continue
		}
		f := strings.Fields(line)
		if len(f) < 2 {
			continue
		}
		v := f[len(f)-1]
		if x, err := strconv.ParseFloat(v, 64); err == nil {
			v = strconv.FormatFloat(x, 'f', 0, 64)
		}
		if strings.Contains(line, "latest_block_height") {
			gotH = v
		}
		if strings.Contains(line, "latest_block_timestamp") {
			gotT = v
		}
	}
	r.Stats["metrics-compared"]++
	if gotH != wantH || gotT != wantT {
		r.miss(k, "metrics", fmt.Sprintf("after header %d was stored %s: latest_block_height{state=%q} = %s, latest_block_timestamp = %s", st.ID, state, state, wantH, wantT),
			fmt.Sprintf("height %s, timestamp %s", gotH, gotT))
	}
	if st.Res == "L" && st.Tip != st.ID {
		r.miss(k, "metrics", "a header stored on the longest chain is the tip", fmt.Sprintf("tip id %d", st.Tip))
	}
}
