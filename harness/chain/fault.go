package chainh

import (
	"errors"
	"fmt"
	"strconv"
	"strings"

	"github.com/bitcoin-sv/block-headers-service/domains"
	"github.com/bitcoin-sv/block-headers-service/internal/chaincfg/chainhash"
	"github.com/bitcoin-sv/block-headers-service/repository"
)

// killSentinel is the panic value with which the decorator abandons an Add (process killed before a write).
type killSentinel struct{ write int }

// FaultRepo decorates repository.Headers: it counts the write calls (UpdateState / AddHeaderToDatabase) of the
// current Add and, at the armed one, either returns an error instead of writing or abandons the goroutine.
type FaultRepo struct {
	repository.Headers
	Writes int    // writes seen since Arm
	Kind   string // "", "kill", "err"
	At     int
	Calls  []string // sequence of repository calls of the current operation (binding of the step model)
}

// Arm prepares a fault for the next operation ("none", "kill@k", "err@k").
func (f *FaultRepo) Arm(spec string) {
	f.Writes, f.Kind, f.At, f.Calls = 0, "", 0, f.Calls[:0]
	if i := strings.IndexByte(spec, '@'); i > 0 {
		f.Kind = spec[:i]
		f.At, _ = strconv.Atoi(spec[i+1:])
	}
}

func (f *FaultRepo) write(name string) error {
	f.Writes++
	f.Calls = append(f.Calls, name)
	if f.Kind != "" && f.Writes == f.At {
		if f.Kind == "kill" {
			panic(killSentinel{f.Writes})
		}
		return errors.New("verif: injected storage failure")
	}
	return nil
}

// AddHeaderToDatabase is a write boundary.
func (f *FaultRepo) AddHeaderToDatabase(h domains.BlockHeader) error {
	if err := f.write("insert"); err != nil {
		return err
	}
	return f.Headers.AddHeaderToDatabase(h)
}

// UpdateState is a write boundary.
func (f *FaultRepo) UpdateState(hs []chainhash.Hash, s domains.HeaderState) error {
	if err := f.write("update:" + string(s)); err != nil {
		return err
	}
	return f.Headers.UpdateState(hs, s)
}

// reads are recorded for the call-sequence binding
func (f *FaultRepo) GetHeaderByHash(hash string) (*domains.BlockHeader, error) {
	f.Calls = append(f.Calls, "byhash")
	return f.Headers.GetHeaderByHash(hash)
}
func (f *FaultRepo) GetHeaderByHeight(h int32) (*domains.BlockHeader, error) {
	f.Calls = append(f.Calls, "byheight")
	return f.Headers.GetHeaderByHeight(h)
}
func (f *FaultRepo) GetTip() (*domains.BlockHeader, error) {
	f.Calls = append(f.Calls, "gettip")
	return f.Headers.GetTip()
}
func (f *FaultRepo) GetStaleChainHeadersBackFrom(hash string) ([]*domains.BlockHeader, error) {
	f.Calls = append(f.Calls, "staleback")
	return f.Headers.GetStaleChainHeadersBackFrom(hash)
}
func (f *FaultRepo) GetLongestChainHeadersFromHeight(h int32) ([]*domains.BlockHeader, error) {
	f.Calls = append(f.Calls, "longestfrom")
	return f.Headers.GetLongestChainHeadersFromHeight(h)
}

// killed reports whether a recovered panic value is the kill sentinel.
func killed(x any) bool {
	_, ok := x.(killSentinel)
	return ok
}

var _ = fmt.Sprint
