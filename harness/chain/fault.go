package chainh

import (
	"time"
	"errors"
	"fmt"
	"strconv"
	"strings"

	"github.com/bitcoin-sv/block-headers-service/domains"
	"github.com/bitcoin-sv/block-headers-service/internal/chaincfg/chainhash"
	"github.com/bitcoin-sv/block-headers-service/repository"
)

// killSentinel is the panic value with which the decorator abandons an Add (process killed before a write).
type killSentinel struct{ write int }

// FaultRepo decorates repository.Headers: it counts the write calls (UpdateState / AddHeaderToDatabase) of the
// current Add and, at the armed one, either returns an error instead of writing or abandons the goroutine.
type FaultRepo struct {
	repository.Headers
	Writes int    // writes seen since Arm
	Kind   string // "", "kill", "err"
	At     int
	Calls  []string // sequence of repository calls of the current operation (binding of the step model)
	// Row-level mode (VERIF_ROWFAULT=1): the armed write is not skipped but executed by the real repository with an SQLite
	// trigger that makes the write of ONE row (the last of the call) fail.  A repository write is one atomic statement in the
	// specification, so the outcome must be the same as when the whole call fails (err) / never starts (kill): any row of
	// the same call that was written nevertheless is a partial write.
	Row  bool
	Exec func(q string) error // raw SQL on the stack's database
	Hold func() (release func(), err error) // opens a second connection with a read cursor on headers (busy mode)
}

// Arm prepares a fault for the next operation ("none", "kill@k", "err@k").
func (f *FaultRepo) Arm(spec string) {
	f.Writes, f.Kind, f.At, f.Calls = 0, "", 0, f.Calls[:0]
	if i := strings.IndexByte(spec, '@'); i > 0 {
		f.Kind = spec[:i]
		f.At, _ = strconv.Atoi(spec[i+1:])
	}
}

func (f *FaultRepo) write(name string) error {
	f.Writes++
	f.Calls = append(f.Calls, name)
	if f.Kind != "" && f.Writes == f.At {
		if f.Kind == "kill" {
			panic(killSentinel{f.Writes})
		}
		return errors.New("verif: injected storage failure")
	}
	return nil
}

// Busy mode ("busy@k"): the armed write is executed for real while ANOTHER connection holds an open read cursor on the
// table, so that the write's COMMIT fails (SQLITE_BUSY after the driver's busy timeout).  A write that could not be
// committed has failed: the outcome must equal that of "err@k".
func (f *FaultRepo) withBusyReader(name string, real func() error) error {
	f.Writes++
	f.Calls = append(f.Calls, name)
	if f.Hold == nil {
		panic("HARNESS-ERROR: busy fault without a reader")
	}
	release, err := f.Hold()
	if err != nil {
		panic("HARNESS-ERROR: cannot open the blocking reader: " + err.Error())
	}
	t0 := time.Now()
	werr := real()
	release()
	if werr == nil && time.Since(t0) < 2*time.Second {
		// the driver did not even wait for the lock: the reader was not in the way, nothing was injected
		panic("HARNESS-ERROR: the blocking reader did not block the write")
	}
	return werr // what the repository itself reports for a write whose commit failed
}

// rowFault reports whether the write now starting is the armed one and must be run in row-level mode.
func (f *FaultRepo) rowFault() bool {
	return f.Row && f.Exec != nil && f.Kind != "" && f.Writes+1 == f.At
}

// withRowTrigger runs the real write while an SQLite trigger aborts the write of the row with the given hash.
func (f *FaultRepo) withRowTrigger(name, event, col, hash string, real func() error) error {
	f.Writes++
	f.Calls = append(f.Calls, name)
	kind := f.Kind
	if err := f.Exec("CREATE TRIGGER verif_rowfault BEFORE " + event + " ON headers WHEN " + col + ".hash = '" + hash + "' BEGIN SELECT RAISE(ABORT, 'verif: injected row failure'); END"); err != nil {
		panic("HARNESS-ERROR: cannot create trigger: " + err.Error())
	}
	err := real()
	if derr := f.Exec("DROP TRIGGER verif_rowfault"); derr != nil {
		panic("HARNESS-ERROR: cannot drop trigger: " + derr.Error())
	}
	if kind == "kill" {
		panic(killSentinel{f.Writes}) // the process dies in the middle of the write
	}
	if err == nil {
		return errors.New("verif: injected storage failure (the row trigger did not fire)")
	}
	return err
}

// AddHeaderToDatabase is a write boundary.
func (f *FaultRepo) AddHeaderToDatabase(h domains.BlockHeader) error {
	if f.Kind == "busy" && f.Writes+1 == f.At {
		return f.withBusyReader("insert", func() error { return f.Headers.AddHeaderToDatabase(h) })
	}
	if f.rowFault() {
		return f.withRowTrigger("insert", "INSERT", "NEW", h.Hash.String(), func() error { return f.Headers.AddHeaderToDatabase(h) })
	}
	if err := f.write("insert"); err != nil {
		return err
	}
	return f.Headers.AddHeaderToDatabase(h)
}

// UpdateState is a write boundary.
func (f *FaultRepo) UpdateState(hs []chainhash.Hash, s domains.HeaderState) error {
	if f.Kind == "busy" && f.Writes+1 == f.At {
		return f.withBusyReader("update:"+string(s), func() error { return f.Headers.UpdateState(hs, s) })
	}
	if f.rowFault() && len(hs) > 0 {
		return f.withRowTrigger("update:"+string(s), "UPDATE", "OLD", hs[len(hs)-1].String(), func() error { return f.Headers.UpdateState(hs, s) })
	}
	if err := f.write("update:" + string(s)); err != nil {
		return err
	}
	return f.Headers.UpdateState(hs, s)
}

// reads are recorded for the call-sequence binding
func (f *FaultRepo) GetHeaderByHash(hash string) (*domains.BlockHeader, error) {
	f.Calls = append(f.Calls, "byhash")
	return f.Headers.GetHeaderByHash(hash)
}
func (f *FaultRepo) GetHeaderByHeight(h int32) (*domains.BlockHeader, error) {
	f.Calls = append(f.Calls, "byheight")
	return f.Headers.GetHeaderByHeight(h)
}
func (f *FaultRepo) GetTip() (*domains.BlockHeader, error) {
	f.Calls = append(f.Calls, "gettip")
	return f.Headers.GetTip()
}
func (f *FaultRepo) GetStaleChainHeadersBackFrom(hash string) ([]*domains.BlockHeader, error) {
	f.Calls = append(f.Calls, "staleback")
	return f.Headers.GetStaleChainHeadersBackFrom(hash)
}
func (f *FaultRepo) GetLongestChainHeadersFromHeight(h int32) ([]*domains.BlockHeader, error) {
	f.Calls = append(f.Calls, "longestfrom")
	return f.Headers.GetLongestChainHeadersFromHeight(h)
}

// killed reports whether a recovered panic value is the kill sentinel.
func killed(x any) bool {
	_, ok := x.(killSentinel)
	return ok
}

var _ = fmt.Sprint
