package chainh

import (
	"bufio"
	"encoding/json"
	"fmt"
	"math/big"
	"math/rand"
	"os"
	"sort"

	"github.com/bitcoin-sv/block-headers-service/domains"
)

func init() { extraOps["compact"] = opCompact }

// limbs renders |v| as little-endian base-10^4 limbs (the number format of spec/BigNat.tla).
func limbs(v *big.Int) []int {
	a := new(big.Int).Abs(v)
	out := []int{}
	b := big.NewInt(10000)
	m := new(big.Int)
	for a.Sign() > 0 {
		a.DivMod(a, b, m)
		out = append(out, int(m.Int64()))
	}
	return out
}

// opCompact RECORDS what the repository's arithmetic computes; the oracle is Compact.tla, evaluated by TLC.
func opCompact() error {
	seed := envInt("VERIF_SEED", 1)
	nrand := int(envInt("VERIF_RANDOM", 1500))
	shards := int(envInt("VERIF_SHARDS", 8))
	rng := rand.New(rand.NewSource(seed))
	mants := []uint32{0, 1, 2, 3, 0x7f, 0x80, 0xff, 0x100, 0x101, 0x7fff, 0x8000, 0xffff, 0x10000, 0x10001, 0x123456, 0x3fffff, 0x400000, 0x7ffffe, 0x7fffff}
	bitsSet := map[uint32]bool{}
	for e := uint32(0); e < 256; e++ {
		for _, sign := range []uint32{0, 0x00800000} {
			for _, m := range mants {
				bitsSet[e<<24|sign|m] = true
			}
			bitsSet[e<<24|sign|(rng.Uint32()&0x7fffff)] = true
		}
	}
	for i := 0; i < nrand; i++ {
		bitsSet[rng.Uint32()] = true
	}
	for _, b := range []uint32{0x1d00ffff, 0x207fffff, 0x1b0404cb, 0x180f0dc7, 0x1802f8d1, 0xffffffff, 0x00ffffff, 0x03000001, 0x037fffff, 0x04000001} {
		bitsSet[b] = true
	}
	type vec struct {
		bits uint32
		t, w *big.Int
	}
	vs := make([]vec, 0, len(bitsSet))
	for b := range bitsSet {
		vs = append(vs, vec{b, domains.CompactToBig(b), domains.CalculateWork(b).BigInt()})
	}
	sort.Slice(vs, func(i, j int) bool {
		if c := vs[i].t.Cmp(vs[j].t); c != 0 {
			return c < 0
		}
		return vs[i].bits < vs[j].bits
	})
	files := make([]*bufio.Writer, shards)
	for i := range files {
		f, err := os.Create(fmt.Sprintf("%s.%02d", os.Getenv("VERIF_OUT"), i))
		if err != nil {
			return err
		}
		defer f.Close()
		files[i] = bufio.NewWriter(f)
		defer files[i].Flush()
	}
	for i, v := range vs {
		js, _ := json.Marshal(map[string]any{"ev": "vec", "hi": v.bits >> 16, "lo": v.bits & 0xffff, "neg": v.t.Sign() < 0, "t": limbs(v.t), "w": limbs(v.w)})
		fmt.Fprintln(files[i%shards], string(js)) // round-robin keeps every shard sorted by target
	}
	// log2: windows around every power of two, a lattice, random values
	ns := map[uint32]bool{1: true, 2: true, 3: true, 0xffffffff: true}
	for k := uint(0); k < 32; k++ {
		p := uint64(1) << k
		for d := int64(-140); d <= 3; d++ {
			if v := int64(p) + d; v >= 1 && v <= 0xffffffff {
				ns[uint32(v)] = true
			}
		}
	}
	for i := 0; i < nrand; i++ {
		if v := rng.Uint32() >> uint(rng.Intn(32)); v > 0 {
			ns[v] = true
		}
	}
	i := 0
	for n := range ns {
		js, _ := json.Marshal(map[string]any{"ev": "log2", "hi": n >> 16, "lo": n & 0xffff, "r": domains.FastLog2Floor(n)})
		fmt.Fprintln(files[i%shards], string(js))
		i++
	}
	st, _ := json.Marshal(map[string]int{"vectors": len(vs), "log2": len(ns)})
	return os.WriteFile(os.Getenv("VERIF_OUT")+".stats", st, 0o644)
}
