package chainh

import (
	"bufio"
	"encoding/json"
	"fmt"
	"math/rand"
	"os"

	"github.com/bitcoin-sv/block-headers-service/internal/chaincfg/chainhash"
)

func init() { extraOps["longchain"] = opLongChain }

// opLongChain (C13, direction B): a chain of several thousand headers with stale siblings and orphan headers at the
// heights a locator visits is ingested through Chains.Add; the locator the service builds and its answers to getheaders
// requests (locators mixing longest-chain, stale, orphan and unknown hashes in any order; stop hashes zero, ahead within
// and beyond 2000, behind, stale, unknown) are recorded in the terms of Locator.tla and validated by TLC (Trace_Long.tla).
// Ids: 1..n = the longest chain (id = height); n+1.. = stale siblings and orphans.
func opLongChain() error {
	seed := envInt("VERIF_SEED", 1)
	n := int(envInt("VERIF_LEN", 4100))
	nq := int(envInt("VERIF_QUERIES", 400))
	rng := rand.New(rand.NewSource(seed))
	rp, err := NewReplayer(os.Getenv("VERIF_DB"), seed)
	if err != nil {
		return err
	}
	var b Behaviour
	for i := 1; i <= n; i++ {
		b.Hist = append(b.Hist, Step{Op: "add", ID: i, Parent: i - 1, Work: 2, Root: i})
	}
	// stale siblings (lighter) at heights the tip's locator visits and at random heights; short stale branches; orphans
	next := n + 1
	var stale, orphan []int
	staleH := map[int]int{}
	addStale := func(h int) {
		if h < 1 || h > n {
			return
		}
		b.Hist = append(b.Hist, Step{Op: "add", ID: next, Parent: h - 1, Work: 1, Root: next})
		stale = append(stale, next)
		staleH[next] = h
		next++
	}
	for _, h := range []int{n, n - 1, n - 2, n - 9, n - 10, n - 12, n - 16, n - 24, n - 40, n - 72, n - 136, n / 2, 2001, 2000, 1999, 1, 2} {
		addStale(h)
	}
	for i := 0; i < 12; i++ {
		addStale(1 + rng.Intn(n))
	}
	for i := 0; i < 4; i++ {
		b.Hist = append(b.Hist, Step{Op: "add", ID: next, Parent: next + 100000, Work: 1, Root: next})
		orphan = append(orphan, next)
		next++
	}
	c := Concretise(&b, rp.Genesis, seed)
	if err := rp.S.Reset(); err != nil {
		return err
	}
	out, err := os.Create(os.Getenv("VERIF_TRACE"))
	if err != nil {
		return err
	}
	defer out.Close()
	w := bufio.NewWriter(out)
	defer w.Flush()
	emit := func(v any) {
		js, _ := json.Marshal(v)
		_, _ = w.Write(append(js, '\n'))
	}
	idOf := func(h chainhash.Hash) int {
		if id, ok := c.ByHash[h.String()]; ok {
			return id
		}
		return -77
	}
	// the locator is asked WHILE the chain grows: at every tip height up to 300 and around every 2^k + 9 / 2^k + 10 (where
	// the doubling steps land on or next to genesis) - its shape depends on the tip height alone
	askAt := map[int]bool{}
	for h := 0; h <= 300; h++ {
		askAt[h] = true
	}
	for k := 1; k < 20; k++ {
		for d := 7; d <= 12; d++ {
			askAt[1<<k+d] = true
		}
	}
	for _, st := range b.Hist {
		if _, err, crashed := SafeAdd(rp.S.Svc.Chains, c.Source(st.ID)); err != nil || crashed != "" {
			return fmt.Errorf("ingest %d: %v %s", st.ID, err, crashed)
		}
		if st.ID <= n && askAt[st.ID] {
			hs, all := []int{}, true
			for _, h := range rp.S.Svc.Headers.LatestHeaderLocator() {
				id := idOf(*h)
				if id < 0 || id > n {
					all = false
				}
				hs = append(hs, id)
			}
			emit(map[string]any{"ev": "locator", "tip": st.ID, "heights": hs, "allLongest": all})
		}
	}
	// the locator of the service
	loc := rp.S.Svc.Headers.LatestHeaderLocator()
	hs := []int{}
	all := true
	for _, h := range loc {
		id := idOf(*h)
		if id < 0 || id > n {
			all = false
		}
		hs = append(hs, id)
	}
	emit(map[string]any{"ev": "locator", "tip": n, "heights": hs, "allLongest": all})
	// getheaders
	pickLongest := func() int { return rng.Intn(n + 1) }
	for q := 0; q < nq; q++ {
		var ids []int // locator as block ids (negative = unknown hash)
		switch q % 8 {
		case 0:
			ids = []int{pickLongest()}
		case 1:
			ids = []int{stale[rng.Intn(len(stale))], pickLongest()}
		case 2:
			ids = []int{pickLongest(), pickLongest(), stale[rng.Intn(len(stale))]} // any order: the HIGHEST longest-chain entry counts
		case 3:
			ids = []int{-5, orphan[rng.Intn(len(orphan))], stale[rng.Intn(len(stale))]} // nothing on the longest chain: from height 1
		case 4:
			ids = []int{}
			for _, x := range hs { // a real locator of a peer that is behind: the service's own locator heights shifted down
				if x-rng.Intn(3) >= 0 {
					ids = append(ids, x-rng.Intn(3))
				}
			}
		case 5:
			ids = []int{n - rng.Intn(5)}
		case 6:
			ids = []int{rng.Intn(200)}
		default:
			ids = []int{pickLongest(), -9}
		}
		start := 0
		var locHs []int
		locHashes := make([]*chainhash.Hash, 0, len(ids))
		for _, id := range ids {
			var h chainhash.Hash
			if id >= 0 {
				h = chainhash.Hash(c.hashBytes(id))
			} else {
				h = chainhash.Hash{0xcd, byte(-id)}
			}
			locHashes = append(locHashes, &h)
			if id >= 0 && id <= n {
				locHs = append(locHs, id)
				if id > start {
					start = id
				}
			}
		}
		// stop hash: zero, ahead within the cap, ahead beyond the cap, at/below the start, stale, unknown
		stopID, stopH := -1, -1
		switch (q / 8) % 7 {
		case 0:
		case 1:
			stopID = min(n, start+1+rng.Intn(1500))
		case 2:
			stopID = min(n, start+2001+rng.Intn(900))
		case 3:
			stopID = max(1, start-rng.Intn(50)) // height 0 (genesis) is the listed finding D9 and is not asked here
		case 4:
			stopID = stale[rng.Intn(len(stale))]
		case 5:
			stopID = -3
		default:
			// exactly at, one below and one above the 2000-header cap
			stopID = min(n, start+[]int{2000, 1999, 2001, 2001, 2002}[rng.Intn(5)])
		}
		stop := chainhash.Hash{}
		if stopID >= 0 {
			stop = chainhash.Hash(c.hashBytes(stopID))
			if stopID <= n {
				stopH = stopID
			}
		} else if stopID < -1 {
			stop = chainhash.Hash{0xee, byte(-stopID)}
		}
		got := rp.S.Svc.Headers.LocateHeaders(locHashes, &stop)
		first, linked, allL := 0, true, true
		prev := -1
		for i := range got {
			id := idOf(got[i].BlockHash())
			if id < 0 || id > n {
				allL = false
			}
			if i == 0 {
				first = id
			} else if id != prev+1 {
				linked = false
			}
			prev = id
		}
		if locHs == nil {
			locHs = []int{}
		}
		emit(map[string]any{"ev": "getheaders", "tip": n, "loc": locHs, "stop": stopH, "cap": 2000, "first": first, "count": len(got), "linked": linked, "allLongest": allL})
		// the second entry point must give the same headers
		if hp, err := rp.S.Svc.Headers.LocateHeadersGetHeaders(locHashes, &stop); err == nil {
			f2 := 0
			if len(hp) > 0 {
				f2 = idOf(hp[0].BlockHash())
			}
			emit(map[string]any{"ev": "getheaders", "tip": n, "loc": locHs, "stop": stopH, "cap": 2000, "first": f2, "count": len(hp), "linked": linked, "allLongest": allL})
		}
	}
	// C04 at distances the small models cannot reach: the ancestors of a longest-chain header down to another one far below it
	// (Chain.tla: Ancestors(a, b) = PathDown(a, b), on a linear chain the a-b+1 headers of heights b..a, parent-linked)
	for _, pr := range [][2]int{{n, n - 1}, {n, n - 1999}, {n, n - 2000}, {n, n - 2001}, {n, n - 2002}, {n, 1}, {n - 1, 50}, {2500, 400}, {2 + rng.Intn(n-2), 1}} {
		if pr[1] < 1 || pr[0] <= pr[1] || pr[0] > n {
			continue
		}
		code, body := rp.S.HTTP("GET", "/api/v1/chain/header/"+c.HashOf(pr[0])+"/"+c.HashOf(pr[1])+"/ancestor", nil, nil)
		var hs []hdrJSON
		lo, hi, linked := -1, -1, true
		if code == 200 && json.Unmarshal(body, &hs) == nil {
			prev := -1
			for i, h := range hs {
				hh, err := chainhash.NewHashFromStr(h.Hash)
				if err != nil {
					linked = false
					continue
				}
				id := idOf(*hh)
				if lo == -1 || id < lo {
					lo = id
				}
				if id > hi {
					hi = id
				}
				if i > 0 && id != prev+1 && id != prev-1 {
					linked = false
				}
				prev = id
			}
		}
		emit(map[string]any{"ev": "ancestors", "a": pr[0], "b": pr[1], "code": code, "count": len(hs), "lo": lo, "hi": hi, "linked": linked})
	}
	return nil
}
