package chainh

import (
	"compress/gzip"
	"encoding/csv"
	"fmt"
	"math/rand"
	"os"

	"github.com/bitcoin-sv/block-headers-service/config"
	"github.com/bitcoin-sv/block-headers-service/database"
	"github.com/bitcoin-sv/block-headers-service/internal/chaincfg"
	"github.com/bitcoin-sv/block-headers-service/internal/chaincfg/chainhash"
)

func init() { extraOps["longimport"] = opLongImport }

// opLongImport: ImportOfExportIsLongestChain on a chain longer than the importer's batch size (500 rows):
// a long linear chain with a stale branch and an orphan is ingested through Chains.Add, exported, imported into an
// empty database, and every row is compared with the longest chain of the original store.
func opLongImport() error {
	seed := envInt("VERIF_SEED", 1)
	n := int(envInt("VERIF_LEN", 1100))
	rp, err := NewReplayer(os.Getenv("VERIF_DB"), seed)
	if err != nil {
		return err
	}
	var b Behaviour
	for i := 1; i <= n; i++ {
		b.Hist = append(b.Hist, Step{Op: "add", ID: i, Parent: i - 1, Work: []int{1, 2, 4, 1}[i%4], Root: i})
	}
	b.Hist = append(b.Hist, Step{Op: "add", ID: n + 1, Parent: n / 2, Work: 1, Root: n + 1}, Step{Op: "add", ID: n + 2, Parent: n + 1, Work: 1, Root: n + 2},
		Step{Op: "add", ID: n + 3, Parent: n + 99, Work: 2, Root: n + 3})
	c := Concretise(&b, rp.Genesis, seed)
	if err := rp.S.Reset(); err != nil {
		return err
	}
	for _, st := range b.Hist {
		if _, err, crashed := SafeAdd(rp.S.Svc.Chains, c.Source(st.ID)); err != nil || crashed != "" {
			return fmt.Errorf("ingest %d: %v %s", st.ID, err, crashed)
		}
	}
	name := "long.csv.gz"
	rp.S.Cfg.Db.PreparedDbFilePath = name
	if err := database.ExportHeaders(rp.S.Cfg, &rp.S.log); err != nil {
		return os.WriteFile(os.Getenv("VERIF_OUT"), []byte(`{"mismatch":"export failed: `+err.Error()+`"}`), 0o644)
	}
	orig, _ := rp.S.Rows()
	cph := chainhash.Hash(c.hashBytes(n))
	config.Checkpoints = []chaincfg.Checkpoint{{Height: int32(n), Hash: &cph}}
	cfg := NewConfig("long-import.db")
	cfg.Db.PreparedDb, cfg.Db.PreparedDbFilePath = true, name
	db, err := database.Init(cfg, &rp.S.log)
	if err != nil {
		return os.WriteFile(os.Getenv("VERIF_OUT"), []byte(fmt.Sprintf(`{"mismatch":%q}`, "import of the exported file refused: "+err.Error())), 0o644)
	}
	defer db.Close()
	msg := ""
	rp.compareImported(db, c, orig, "none", 0, n+1, func(exp, got string) {
		if msg == "" {
			msg = "expected " + exp + ", got " + got
		}
	})
	if msg == "" {
		msg = rp.malformedRowsInLongFile(name, c, seed)
	}
	if msg == "" {
		msg = rp.exportAfterFailedExport(seed)
	}
	return os.WriteFile(os.Getenv("VERIF_OUT"), []byte(fmt.Sprintf(`{"mismatch":%q,"rows":%d}`, msg, n+1)), 0o644)
}

// exportAfterFailedExport: an export that fails late (its destination cannot be written) must not leave anything behind
// that a later export of another, smaller store picks up: export/import of the small store reproduces exactly its chain.
func (rp *Replayer) exportAfterFailedExport(seed int64) string {
	rp.S.Cfg.Db.PreparedDbFilePath = "no-such-directory/sub/long.csv.gz"
	if err := database.ExportHeaders(rp.S.Cfg, &rp.S.log); err == nil {
		return "" // the export found a way to write there: nothing to check
	}
	const m = 12
	var b Behaviour
	for i := 1; i <= m; i++ {
		b.Hist = append(b.Hist, Step{Op: "add", ID: i, Parent: i - 1, Work: 1, Root: i})
	}
	c := Concretise(&b, rp.Genesis, seed+77)
	if err := rp.S.Reset(); err != nil {
		return "HARNESS: " + err.Error()
	}
	for _, st := range b.Hist {
		if _, err, crashed := SafeAdd(rp.S.Svc.Chains, c.Source(st.ID)); err != nil || crashed != "" {
			return fmt.Sprintf("ingest of the small store failed at %d: %v %s", st.ID, err, crashed)
		}
	}
	name := "small.csv.gz"
	rp.S.Cfg.Db.PreparedDbFilePath = name
	if err := database.ExportHeaders(rp.S.Cfg, &rp.S.log); err != nil {
		return "export of a 12-header store after a failed export of a larger one: " + err.Error()
	}
	orig, _ := rp.S.Rows()
	cph := chainhash.Hash(c.hashBytes(m))
	config.Checkpoints = []chaincfg.Checkpoint{{Height: int32(m), Hash: &cph}}
	cfg := NewConfig("small-import.db")
	cfg.Db.PreparedDb, cfg.Db.PreparedDbFilePath = true, name
	db, err := database.Init(cfg, &rp.S.log)
	if err != nil {
		return "import of the export made after a failed export is refused: " + err.Error()
	}
	defer db.Close()
	var cnt int
	_ = db.Get(&cnt, "SELECT COUNT(*) FROM headers")
	if cnt != m+1 {
		return fmt.Sprintf("export after a failed export of a larger store: the imported database holds %d headers, the exported longest chain has %d", cnt, m+1)
	}
	msg := ""
	rp.compareImported(db, c, orig, "none", 0, m+1, func(exp, got string) {
		if msg == "" {
			msg = "after a failed export: expected " + exp + ", got " + got
		}
	})
	return msg
}

// malformedRowsInLongFile: one malformed row in a file longer than the importer's batch size, at the rows around the batch
// boundaries (the importer commits 500 rows at a time), at the last row and at a random one, with the newest checkpoint
// BELOW the bad row: start-up is refused, and a second start on the same database is refused as well.
func (rp *Replayer) malformedRowsInLongFile(name string, c *Concrete, seed int64) string {
	f, err := os.Open(name)
	if err != nil {
		return "HARNESS: " + err.Error()
	}
	gz, err := gzip.NewReader(f)
	if err != nil {
		f.Close()
		return "HARNESS: " + err.Error()
	}
	all, err := csv.NewReader(gz).ReadAll()
	f.Close()
	if err != nil || len(all) < 3 {
		return fmt.Sprintf("HARNESS: exported file unreadable: %v (%d lines)", err, len(all))
	}
	head, rows := all[0], all[1:]
	rng := rand.New(rand.NewSource(seed*31 + 5))
	positions := []int{499, 500, 501, 999, 1000, 1001, 1500, 2000, len(rows) - 1, 1 + rng.Intn(len(rows)-1)}
	for pi, pos := range positions {
		if pos < 2 || pos >= len(rows) {
			continue
		}
		kind := (pi + int(seed)) % 5
		bad := make([][]string, len(rows))
		copy(bad, rows)
		rw := append([]string(nil), rows[pos]...)
		what := ""
		switch kind {
		case 0:
			rw[2], what = rw[2]+"x", "a nonce that is not a number"
		case 1:
			rw, what = rw[:4], "a row with 4 columns"
		case 2:
			rw[1], what = "zz"+rw[1][2:], "a merkle root that is not hexadecimal"
		case 3:
			rw[4], what = "", "an empty timestamp"
		case 4:
			rw[0], what = "1.5", "a version that is not an integer"
		}
		bad[pos] = rw
		fn := fmt.Sprintf("long-bad-%d.csv.gz", pi)
		out, err := os.Create(fn)
		if err != nil {
			return "HARNESS: " + err.Error()
		}
		zw := gzip.NewWriter(out)
		w := csv.NewWriter(zw)
		_ = w.Write(head)
		_ = w.WriteAll(bad)
		w.Flush()
		_ = zw.Close()
		_ = out.Close()
		cpH := pos / 2
		cph := chainhash.Hash(c.hashBytes(cpH))
		config.Checkpoints = []chaincfg.Checkpoint{{Height: int32(cpH), Hash: &cph}}
		dbn := fmt.Sprintf("long-bad-%d.db", pi)
		cfg := NewConfig(dbn)
		cfg.Db.PreparedDb, cfg.Db.PreparedDbFilePath = true, fn
		desc := fmt.Sprintf("%s at row %d of a %d-row file (newest checkpoint at height %d)", what, pos, len(rows), cpH)
		msg := ""
		if db, err := database.Init(cfg, &rp.S.log); err == nil {
			var cnt int
			_ = db.Get(&cnt, "SELECT COUNT(*) FROM headers")
			_ = db.Close()
			msg = fmt.Sprintf("%s: expected start-up refused, got import accepted, serving %d headers", desc, cnt)
		} else if db2, err2 := database.Init(cfg, &rp.S.log); err2 == nil {
			var cnt int
			_ = db2.Get(&cnt, "SELECT COUNT(*) FROM headers")
			_ = db2.Close()
			msg = fmt.Sprintf("%s: the first start is refused, expected the second start on the same database refused as well, got started, serving %d leftover headers", desc, cnt)
		}
		os.Remove(fn)
		os.Remove(dbn)
		os.Remove(dbn + "-journal")
		if msg != "" {
			return msg
		}
	}
	return ""
}
