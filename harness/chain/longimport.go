package chainh

import (
	"fmt"
	"os"

	"github.com/bitcoin-sv/block-headers-service/config"
	"github.com/bitcoin-sv/block-headers-service/database"
	"github.com/bitcoin-sv/block-headers-service/internal/chaincfg"
	"github.com/bitcoin-sv/block-headers-service/internal/chaincfg/chainhash"
)

func init() { extraOps["longimport"] = opLongImport }

// opLongImport: ImportOfExportIsLongestChain on a chain longer than the importer's batch size (500 rows):
// a long linear chain with a stale branch and an orphan is ingested through Chains.Add, exported, imported into an
// empty database, and every row is compared with the longest chain of the original store.
func opLongImport() error {
	seed := envInt("VERIF_SEED", 1)
	n := int(envInt("VERIF_LEN", 1100))
	rp, err := NewReplayer(os.Getenv("VERIF_DB"), seed)
	if err != nil {
		return err
	}
	var b Behaviour
	for i := 1; i <= n; i++ {
		b.Hist = append(b.Hist, Step{Op: "add", ID: i, Parent: i - 1, Work: []int{1, 2, 4, 1}[i%4], Root: i})
	}
	b.Hist = append(b.Hist, Step{Op: "add", ID: n + 1, Parent: n / 2, Work: 1, Root: n + 1}, Step{Op: "add", ID: n + 2, Parent: n + 1, Work: 1, Root: n + 2},
		Step{Op: "add", ID: n + 3, Parent: n + 99, Work: 2, Root: n + 3})
	c := Concretise(&b, rp.Genesis, seed)
	if err := rp.S.Reset(); err != nil {
		return err
	}
	for _, st := range b.Hist {
		if _, err, crashed := SafeAdd(rp.S.Svc.Chains, c.Source(st.ID)); err != nil || crashed != "" {
			return fmt.Errorf("ingest %d: %v %s", st.ID, err, crashed)
		}
	}
	name := "long.csv.gz"
	rp.S.Cfg.Db.PreparedDbFilePath = name
	if err := database.ExportHeaders(rp.S.Cfg, &rp.S.log); err != nil {
		return os.WriteFile(os.Getenv("VERIF_OUT"), []byte(`{"mismatch":"export failed: `+err.Error()+`"}`), 0o644)
	}
	orig, _ := rp.S.Rows()
	cph := chainhash.Hash(c.hashBytes(n))
	config.Checkpoints = []chaincfg.Checkpoint{{Height: int32(n), Hash: &cph}}
	cfg := NewConfig("long-import.db")
	cfg.Db.PreparedDb, cfg.Db.PreparedDbFilePath = true, name
	db, err := database.Init(cfg, &rp.S.log)
	if err != nil {
		return os.WriteFile(os.Getenv("VERIF_OUT"), []byte(fmt.Sprintf(`{"mismatch":%q}`, "import of the exported file refused: "+err.Error())), 0o644)
	}
	defer db.Close()
	msg := ""
	rp.compareImported(db, c, orig, "none", 0, n+1, func(exp, got string) {
		if msg == "" {
			msg = "expected " + exp + ", got " + got
		}
	})
	if msg == "" {
		msg = rp.exportAfterFailedExport(seed)
	}
	return os.WriteFile(os.Getenv("VERIF_OUT"), []byte(fmt.Sprintf(`{"mismatch":%q,"rows":%d}`, msg, n+1)), 0o644)
}

// exportAfterFailedExport: an export that fails late (its destination cannot be written) must not leave anything behind
// that a later export of another, smaller store picks up: export/import of the small store reproduces exactly its chain.
func (rp *Replayer) exportAfterFailedExport(seed int64) string {
	rp.S.Cfg.Db.PreparedDbFilePath = "no-such-directory/sub/long.csv.gz"
	if err := database.ExportHeaders(rp.S.Cfg, &rp.S.log); err == nil {
		return "" // the export found a way to write there: nothing to check
	}
	const m = 12
	var b Behaviour
	for i := 1; i <= m; i++ {
		b.Hist = append(b.Hist, Step{Op: "add", ID: i, Parent: i - 1, Work: 1, Root: i})
	}
	c := Concretise(&b, rp.Genesis, seed+77)
	if err := rp.S.Reset(); err != nil {
		return "HARNESS: " + err.Error()
	}
	for _, st := range b.Hist {
		if _, err, crashed := SafeAdd(rp.S.Svc.Chains, c.Source(st.ID)); err != nil || crashed != "" {
			return fmt.Sprintf("ingest of the small store failed at %d: %v %s", st.ID, err, crashed)
		}
	}
	name := "small.csv.gz"
	rp.S.Cfg.Db.PreparedDbFilePath = name
	if err := database.ExportHeaders(rp.S.Cfg, &rp.S.log); err != nil {
		return "export of a 12-header store after a failed export of a larger one: " + err.Error()
	}
	orig, _ := rp.S.Rows()
	cph := chainhash.Hash(c.hashBytes(m))
	config.Checkpoints = []chaincfg.Checkpoint{{Height: int32(m), Hash: &cph}}
	cfg := NewConfig("small-import.db")
	cfg.Db.PreparedDb, cfg.Db.PreparedDbFilePath = true, name
	db, err := database.Init(cfg, &rp.S.log)
	if err != nil {
		return "import of the export made after a failed export is refused: " + err.Error()
	}
	defer db.Close()
	var cnt int
	_ = db.Get(&cnt, "SELECT COUNT(*) FROM headers")
	if cnt != m+1 {
		return fmt.Sprintf("export after a failed export of a larger store: the imported database holds %d headers, the exported longest chain has %d", cnt, m+1)
	}
	msg := ""
	rp.compareImported(db, c, orig, "none", 0, m+1, func(exp, got string) {
		if msg == "" {
			msg = "after a failed export: expected " + exp + ", got " + got
		}
	})
	return msg
}
