package chainh

import (
	"fmt"
	"os"

	"github.com/bitcoin-sv/block-headers-service/config"
	"github.com/bitcoin-sv/block-headers-service/database"
	"github.com/bitcoin-sv/block-headers-service/internal/chaincfg"
	"github.com/bitcoin-sv/block-headers-service/internal/chaincfg/chainhash"
)

func init() { extraOps["longimport"] = opLongImport }

// opLongImport: ImportOfExportIsLongestChain on a chain longer than the importer's batch size (500 rows):
// a long linear chain with a stale branch and an orphan is ingested through Chains.Add, exported, imported into an
// empty database, and every row is compared with the longest chain of the original store.
func opLongImport() error {
	seed := envInt("VERIF_SEED", 1)
	n := int(envInt("VERIF_LEN", 1100))
	rp, err := NewReplayer(os.Getenv("VERIF_DB"), seed)
	if err != nil {
		return err
	}
	var b Behaviour
	for i := 1; i <= n; i++ {
		b.Hist = append(b.Hist, Step{Op: "add", ID: i, Parent: i - 1, Work: []int{1, 2, 4, 1}[i%4], Root: i})
	}
	b.Hist = append(b.Hist, Step{Op: "add", ID: n + 1, Parent: n / 2, Work: 1, Root: n + 1}, Step{Op: "add", ID: n + 2, Parent: n + 1, Work: 1, Root: n + 2},
		Step{Op: "add", ID: n + 3, Parent: n + 99, Work: 2, Root: n + 3})
	c := Concretise(&b, rp.Genesis, seed)
	if err := rp.S.Reset(); err != nil {
		return err
	}
	for _, st := range b.Hist {
		if _, err, crashed := SafeAdd(rp.S.Svc.Chains, c.Source(st.ID)); err != nil || crashed != "" {
			return fmt.Errorf("ingest %d: %v %s", st.ID, err, crashed)
		}
	}
	name := "long.csv.gz"
	rp.S.Cfg.Db.PreparedDbFilePath = name
	if err := database.ExportHeaders(rp.S.Cfg, &rp.S.log); err != nil {
		return os.WriteFile(os.Getenv("VERIF_OUT"), []byte(`{"mismatch":"export failed: `+err.Error()+`"}`), 0o644)
	}
	orig, _ := rp.S.Rows()
	cph := chainhash.Hash(c.hashBytes(n))
	config.Checkpoints = []chaincfg.Checkpoint{{Height: int32(n), Hash: &cph}}
	cfg := NewConfig("long-import.db")
	cfg.Db.PreparedDb, cfg.Db.PreparedDbFilePath = true, name
	db, err := database.Init(cfg, &rp.S.log)
	if err != nil {
		return os.WriteFile(os.Getenv("VERIF_OUT"), []byte(fmt.Sprintf(`{"mismatch":%q}`, "import of the exported file refused: "+err.Error())), 0o644)
	}
	defer db.Close()
	msg := ""
	rp.compareImported(db, c, orig, "none", 0, n+1, func(exp, got string) {
		if msg == "" {
			msg = "expected " + exp + ", got " + got
		}
	})
	return os.WriteFile(os.Getenv("VERIF_OUT"), []byte(fmt.Sprintf(`{"mismatch":%q,"rows":%d}`, msg, n+1)), 0o644)
}
