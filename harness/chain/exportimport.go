package chainh

import (
	"compress/gzip"
	"encoding/csv"
	"encoding/json"
	"fmt"
	"os"
	"strconv"
	"strings"

	"github.com/bitcoin-sv/block-headers-service/config"
	"github.com/bitcoin-sv/block-headers-service/database"
	"github.com/bitcoin-sv/block-headers-service/internal/chaincfg"
	"github.com/bitcoin-sv/block-headers-service/internal/chaincfg/chainhash"
	"github.com/jmoiron/sqlx"
)

// C17: export of the replayed store, import of the (possibly corrupted) file into a fresh database.

type expCache struct {
	beh  int
	rows [][]string // data rows of the exported csv (without the column line)
	head []string
	err  error
}

var expC expCache
var impSeq int

func (r *Replayer) exported() *expCache {
	if expC.beh == r.cur+1 {
		return &expC
	}
	expC = expCache{beh: r.cur + 1}
	name := fmt.Sprintf("export-%d.csv.gz", r.cur)
	r.S.Cfg.Db.PreparedDbFilePath = name
	if err := database.ExportHeaders(r.S.Cfg, &r.S.log); err != nil {
		expC.err = err
		return &expC
	}
	f, err := os.Open(name)
	if err != nil {
		expC.err = err
		return &expC
	}
	defer f.Close()
	defer os.Remove(name)
	gz, err := gzip.NewReader(f)
	if err != nil {
		expC.err = err
		return &expC
	}
	all, err := csv.NewReader(gz).ReadAll()
	if err != nil || len(all) == 0 {
		expC.err = fmt.Errorf("csv: %v (%d lines)", err, len(all))
		return &expC
	}
	expC.head, expC.rows = all[0], all[1:]
	return &expC
}

func (r *Replayer) rawOf(c *Concrete, id int) *RawHeader {
	if id == 0 {
		g := r.Params.GenesisBlock.Header
		return &RawHeader{Version: 1, Prev: g.PrevBlock, Merkle: g.MerkleRoot, Time: uint32(g.Timestamp.Unix()), Bits: g.Bits, Nonce: g.Nonce}
	}
	return c.Hdr[id]
}

func (r *Replayer) runExportImport(k int, c *Concrete, q *Query, fail func(exp, got string)) {
	ex := r.exported()
	if ex.err != nil {
		fail("export succeeds", ex.err.Error())
		return
	}
	switch q.K {
	case "export":
		var ids []int
		_ = json.Unmarshal(q.R, &ids)
		if len(ex.rows) != len(ids) {
			fail(fmt.Sprintf("%d rows %v", len(ids), ids), fmt.Sprintf("%d rows", len(ex.rows)))
			return
		}
		for h, id := range ids {
			raw := r.rawOf(c, id)
			want := []string{fmt.Sprint(raw.Version), HexRev(raw.Merkle), fmt.Sprint(raw.Nonce), fmt.Sprint(raw.Bits), fmt.Sprint(raw.Time)}
			if strings.Join(ex.rows[h], ",") != strings.Join(want, ",") {
				fail(fmt.Sprintf("row %d = id %d %v", h, id, want), fmt.Sprint(ex.rows[h]))
				return
			}
		}
		// a database that already holds headers is never overwritten by an import:
		// (1) the replayed store itself, (2) a database that holds nothing but its genesis header
		if len(ex.rows) >= 2 {
			name := fmt.Sprintf("keep-%d.csv.gz", r.cur)
			f, _ := os.Create(name)
			gz := gzip.NewWriter(f)
			w := csv.NewWriter(gz)
			_ = w.Write(ex.head)
			_ = w.WriteAll(ex.rows)
			w.Flush()
			_ = gz.Close()
			_ = f.Close()
			defer os.Remove(name)
			tipID := ids[len(ids)-1]
			cph := chainhash.Hash(c.hashBytes(tipID))
			saved := config.Checkpoints
			config.Checkpoints = []chaincfg.Checkpoint{{Height: int32(len(ids) - 1), Hash: &cph}}
			defer func() { config.Checkpoints = saved }()
			before, _ := r.S.Digest()
			cfg := NewConfig(r.S.Cfg.Db.SQLite.FilePath)
			cfg.Db.PreparedDb, cfg.Db.PreparedDbFilePath = true, name
			// with the newest checkpoint at the exported tip (stored), and with one the database has not reached yet
			far := chainhash.Hash{0x5a, 0xa5}
			for _, cps := range [][]chaincfg.Checkpoint{config.Checkpoints, {{Height: int32(len(ids) + 4), Hash: &far}}} {
				config.Checkpoints = cps
				if db, err := database.Init(cfg, &r.S.log); err != nil {
					fail(fmt.Sprintf("start with prepared_db on a populated database (newest checkpoint at height %d) succeeds and imports nothing", cps[0].Height), err.Error())
				} else {
					_ = db.Close()
				}
				if after, _ := r.S.Digest(); after != before {
					fail("populated database untouched by an import", before+" -> "+after)
					break
				}
			}
			gname := fmt.Sprintf("genesisonly-%d.db", r.cur)
			defer os.Remove(gname)
			gcfg := NewConfig(gname)
			if db, err := database.Init(gcfg, &r.S.log); err == nil {
				_ = db.Close()
				gcfg.Db.PreparedDb, gcfg.Db.PreparedDbFilePath = true, name
				db2, err2 := database.Init(gcfg, &r.S.log)
				if err2 != nil {
					fail("start with prepared_db on a genesis-only database succeeds and imports nothing", err2.Error())
				} else {
					var n int
					_ = db2.Get(&n, "SELECT COUNT(*) FROM headers")
					_ = db2.Close()
					if n != 1 {
						fail("genesis-only database keeps exactly its 1 header", fmt.Sprintf("%d headers", n))
					}
				}
			}
		}
	case "import":
		var a struct {
			Cp   int    `json:"cp"`
			Corr string `json:"corr"`
			Row  int    `json:"row"`
		}
		var verdict string
		_ = json.Unmarshal(q.A, &a)
		_ = json.Unmarshal(q.R, &verdict)
		if a.Cp >= len(ex.rows) || a.Row >= len(ex.rows) {
			return
		}
		rows := make([][]string, 0, len(ex.rows)+1)
		for i, row := range ex.rows {
			rw := append([]string(nil), row...)
			if i == a.Row {
				switch a.Corr {
				case "badnumber":
					rw[[]int{0, 2, 3, 4}[(r.cur+i)%4]] = []string{"12x", "", "1.5", "99999999999999999999"}[(r.cur+k)%4]
				case "shortrow":
					rw = rw[:4]
				case "longrow":
					rw = append(rw, "7")
				case "badhash":
					rw[1] = []string{"zz" + rw[1][2:], rw[1] + "00", "xyz"}[(r.cur+k)%3]
				case "negativenonce":
					rw[2] = "-5"
				case "changefield":
					n, _ := strconv.ParseUint(rw[2], 10, 32)
					rw[2] = fmt.Sprint(uint32(n) ^ 1)
				case "droprow":
					continue
				case "duprow":
					rows = append(rows, rw)
				}
			}
			rows = append(rows, rw)
		}
		impSeq++
		name := fmt.Sprintf("import-%d.csv.gz", impSeq)
		f, err := os.Create(name)
		if err != nil {
			fail("harness can write", err.Error())
			return
		}
		gz := gzip.NewWriter(f)
		w := csv.NewWriter(gz)
		_ = w.Write(ex.head)
		_ = w.WriteAll(rows)
		w.Flush()
		_ = gz.Close()
		_ = f.Close()
		defer os.Remove(name)
		dbName := fmt.Sprintf("import-%d.db", impSeq)
		defer os.Remove(dbName)
		defer os.Remove(dbName + "-journal")
		cfg := NewConfig(dbName)
		cfg.Db.PreparedDb = true
		cfg.Db.PreparedDbFilePath = name
		// the newest checkpoint = the longest-chain header at height cp of the ORIGINAL store
		var cpID = -1
		orig, _ := r.S.Rows()
		for id := range c.HashStr {
			if row, ok := orig[c.HashOf(id)]; ok && row.State == "LONGEST_CHAIN" && row.Height == a.Cp {
				cpID = id
			}
		}
		if cpID < 0 {
			return
		}
		cph := chainhash.Hash(c.hashBytes(cpID))
		saved := config.Checkpoints
		// The specification's verdict speaks about the NEWEST checkpoint only; the list the code is configured with is a
		// dimension the model leaves open.  It is varied here: the newest alone, with the genuine longest-chain header one
		// below it as an older checkpoint, or with every genuine longest-chain header below it (a file that ends exactly at
		// the newest checkpoint and is wrong only above the older ones must still be refused).
		var cps []chaincfg.Checkpoint
		if variant := (r.cur + k) % 3; variant != 0 {
			for h := 0; h < a.Cp; h++ {
				if variant == 1 && h != a.Cp-1 {
					continue
				}
				for id := range c.HashStr {
					if row, ok := orig[c.HashOf(id)]; ok && row.State == "LONGEST_CHAIN" && row.Height == h {
						oh := chainhash.Hash(c.hashBytes(id))
						cps = append(cps, chaincfg.Checkpoint{Height: int32(h), Hash: &oh})
					}
				}
			}
		}
		config.Checkpoints = append(cps, chaincfg.Checkpoint{Height: int32(a.Cp), Hash: &cph})
		defer func() { config.Checkpoints = saved }()
		db, err := database.Init(cfg, &r.S.log)
		if verdict == "refuse" {
			if err == nil {
				_ = db.Close()
				fail("start-up refused", "import accepted")
				return
			}
			// a later start on the same database must not silently accept what the failed import left behind
			db2, err2 := database.Init(cfg, &r.S.log)
			if err2 == nil {
				var n int
				_ = db2.Get(&n, "SELECT COUNT(*) FROM headers")
				_ = db2.Close()
				fail("second start on the same database refused as well", fmt.Sprintf("started, serving %d leftover headers", n))
			}
			return
		}
		if err != nil {
			fail("import accepted", err.Error())
			return
		}
		defer db.Close()
		r.compareImported(db, c, orig, a.Corr, a.Row, len(rows), fail)
	}
}

func (r *Replayer) compareImported(db *sqlx.DB, c *Concrete, orig map[string]Row, corr string, row, nrows int, fail func(exp, got string)) {
	var got []Row
	if err := db.Select(&got, "SELECT hash, height, header_state, chainwork, cumulated_work, previous_block, version, merkleroot, nonce, bits, timestamp FROM headers ORDER BY height"); err != nil {
		fail("imported table readable", err.Error())
		return
	}
	if len(got) != nrows {
		fail(fmt.Sprintf("%d imported rows", nrows), fmt.Sprint(len(got)))
		return
	}
	byHeight := map[int]Row{}
	for _, o := range orig {
		if o.State == "LONGEST_CHAIN" {
			byHeight[o.Height] = o
		}
	}
	for h, g := range got {
		if g.Height != h || g.State != "LONGEST_CHAIN" {
			fail(fmt.Sprintf("row %d at height %d on the longest chain", h, h), fmt.Sprintf("height %d %s", g.Height, g.State))
			return
		}
		if corr != "none" && h >= row {
			break // above a corruption the chain legitimately differs
		}
		o := byHeight[h]
		if g.Hash != o.Hash || g.Cum != o.Cum || g.Chainwork != o.Chainwork || g.Prev != o.Prev || g.Version != o.Version || g.Merkle != o.Merkle ||
			g.Nonce != o.Nonce || g.Bits != o.Bits || g.Timestamp.Unix() != o.Timestamp.Unix() {
			fail(fmt.Sprintf("height %d: %+v", h, o), fmt.Sprintf("%+v", g))
			return
		}
	}
}
