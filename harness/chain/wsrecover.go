package chainh

import (
	"bufio"
	"encoding/json"
	"fmt"
	"net/http/httptest"
	"os"
	"strings"
	"sync"
	"time"

	"github.com/bitcoin-sv/block-headers-service/domains"
	"github.com/bitcoin-sv/block-headers-service/internal/chaincfg/chainhash"
	"github.com/bitcoin-sv/block-headers-service/notification"
	"github.com/bitcoin-sv/block-headers-service/transports/websocket"
	centrifugeclient "github.com/centrifugal/centrifuge-go"
)

func init() { extraOps["wsrecover"] = opWsRecover }

// WsRecovery.tla, direction A: the real websocket server (its centrifuge node), the real websocket notification channel
// publishing through it with the configured history, and a real centrifuge client subscribed to `headers` that goes away
// (Disconnect) and comes back (Connect, resubscribing from its position).  Compared: what the subscriber receives, in
// order, and what it is told about recovery.

type wsEv struct {
	Ev        string `json:"ev"`
	N         int    `json:"n"`
	Missed    int    `json:"missed"`
	Recovered bool   `json:"recovered"`
	Recv      []int  `json:"recv"`
	Online    bool   `json:"online"`
	Told      bool   `json:"told"`
}

type subEv struct{ wasRecovering, recovered bool }

func opWsRecover() error {
	in, err := os.Open(os.Getenv("VERIF_IN"))
	if err != nil {
		return err
	}
	defer in.Close()
	hmax := int(envInt("VERIF_HISTORY_MAX", 2))
	wait := 60 * time.Second // slow is not stuck; after the first wait that expires the later ones are short
	res := Result{DevUsed: map[string]int{}, Stats: map[string]int{}}
	var out []Mismatch
	t0 := time.Now()
	sc := bufio.NewScanner(in)
	sc.Buffer(make([]byte, 1<<20), 1<<26)
	idx := -1
	for sc.Scan() {
		idx++
		var b struct {
			Hist []wsEv `json:"hist"`
		}
		if err := json.Unmarshal(sc.Bytes(), &b); err != nil {
			return err
		}
		// a fresh stack, server and subscriber per behaviour (the channel's history is per node)
		s := &Stack{Cfg: NewConfig(fmt.Sprintf("%s.%d", os.Getenv("VERIF_DB"), idx))}
		s.Cfg.Websocket.HistoryMax = hmax
		if err := s.Open(); err != nil {
			return err
		}
		ws, err := websocket.NewServer(&s.log, s.Svc, false)
		if err != nil {
			return err
		}
		ws.SetupEntrypoint(s.Engine)
		if err := ws.Start(); err != nil {
			return err
		}
		srv := httptest.NewServer(s.Engine)
		url := "ws" + strings.TrimPrefix(srv.URL, "http") + "/connection/websocket"
		cl := centrifugeclient.NewJsonClient(url, centrifugeclient.Config{})
		var mu sync.Mutex
		var recv []int
		subEvs := make(chan subEv, 16)
		sub, err := cl.NewSubscription("headers")
		if err != nil {
			return err
		}
		sub.OnPublication(func(e centrifugeclient.PublicationEvent) {
			ev, _ := fromJSON(e.Data)
			mu.Lock()
			recv = append(recv, int(ev.Height))
			mu.Unlock()
		})
		sub.OnSubscribed(func(e centrifugeclient.SubscribedEvent) {
			subEvs <- subEv{e.WasRecovering, e.Recovered}
		})
		cleanup := func() {
			cl.Close()
			srv.Close()
			_ = ws.Shutdown()
			s.Close()
			os.Remove(s.Cfg.Db.SQLite.FilePath)
		}
		setup := cl.Connect() == nil && sub.Subscribe() == nil
		if setup {
			select {
			case <-subEvs:
			case <-time.After(30 * time.Second):
				setup = false
			}
		}
		if !setup {
			// the subscriber could not be set up (a busy machine): not an observation
			res.Stats["setup-skipped"]++
			cleanup()
			continue
		}
		ch := notification.NewWebsocketChannel(&s.log, ws.Publisher(), s.Cfg.Websocket)
		snapshot := func() []int { mu.Lock(); defer mu.Unlock(); return append([]int(nil), recv...) }
		same := func(a, b []int) bool {
			if len(a) != len(b) {
				return false
			}
			for i := range a {
				if a[i] != b[i] {
					return false
				}
			}
			return true
		}
		miss := func(k int, exp, got string) { out = append(out, Mismatch{Beh: idx, Step: k, Kind: "ws-recovery", Exp: exp, Got: got}) }
		inconclusive := false
	steps:
		for k, ev := range b.Hist {
			res.Stats["steps"]++
			res.Stats["ev:"+ev.Ev]++
			switch ev.Ev {
			case "publish":
				var h chainhash.Hash
				h[0], h[1] = byte(ev.N), 0x77
				hdr := &domains.BlockHeader{Height: int32(ev.N), Hash: h, Version: 1, Timestamp: time.Unix(1700000000+int64(ev.N), 0), State: domains.LongestChain}
				hdr.Chainwork, hdr.CumulatedWork = domains.CalculateWork(0x207fffff).BigInt(), domains.CalculateWork(0x207fffff).BigInt()
				ch.Notify(domains.HeaderAdded(hdr))
			case "away":
				if err := cl.Disconnect(); err != nil {
					inconclusive = true
					break steps
				}
				for len(subEvs) > 0 {
					<-subEvs
				}
			case "back":
				if err := cl.Connect(); err != nil {
					inconclusive = true
					break steps
				}
				select {
				case e := <-subEvs:
					res.Stats[fmt.Sprintf("back:recovered=%v", e.recovered)]++
					if !e.wasRecovering {
						miss(k, fmt.Sprintf("the returning subscriber (missed %d, history %d) resubscribes from its position", ev.Missed, hmax), "the subscription did not ask for recovery")
					} else if e.recovered != ev.Recovered {
						miss(k, fmt.Sprintf("the returning subscriber missed %d publications with a history of %d: told recovered=%v", ev.Missed, hmax, ev.Recovered), fmt.Sprintf("recovered=%v", e.recovered))
					}
				case <-time.After(30 * time.Second):
					inconclusive = true
					break steps
				}
			}
			// what the subscriber has received so far
			if ev.Told {
				// after a failed recovery the subscriber has been told to reload: only order and uniqueness are owed from there on
				// (a publication made while it is on line must still have ARRIVED before the behaviour goes on: the
				// subscriber's position decides what the next reconnection recovers)
				if ev.Ev == "publish" && ev.Online {
					deadline := time.Now().Add(wait)
					for time.Now().Before(deadline) {
						if g := snapshot(); len(g) > 0 && g[len(g)-1] == ev.N {
							break
						}
						time.Sleep(200 * time.Microsecond)
					}
				}
				time.Sleep(2 * time.Millisecond)
				got := snapshot()
				for i := 1; i < len(got); i++ {
					if got[i] <= got[i-1] {
						miss(k, "publications arrive once and in order", fmt.Sprint(got))
						break
					}
				}
				continue
			}
			deadline := time.Now().Add(wait)
			for !same(snapshot(), ev.Recv) && time.Now().Before(deadline) {
				time.Sleep(200 * time.Microsecond)
			}
			time.Sleep(time.Millisecond)
			if got := snapshot(); !same(got, ev.Recv) {
				wait = 3 * time.Second
				miss(k, fmt.Sprintf("after %s the subscriber has received %v (history %d)", ev.Ev, ev.Recv, hmax), fmt.Sprint(got))
				break
			}
		}
		if inconclusive {
			res.Stats["inconclusive"]++
		}
		if idx < 2 {
			res.Samples = append(res.Samples, sc.Text()[:min(len(sc.Text()), 2000)])
		}
		cleanup()
		if len(out) > 40 {
			break
		}
	}
	res.Behaviours, res.Steps, res.Mismatches, res.WallS = idx+1, res.Stats["steps"], out, time.Since(t0).Seconds()
	js, _ := json.Marshal(res)
	return os.WriteFile(os.Getenv("VERIF_OUT"), js, 0o644)
}
