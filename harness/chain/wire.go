package chainh

import (
	"bytes"
	"crypto/sha256"
	"encoding/binary"
	"encoding/json"
	"fmt"
	"math/rand"
	"net"
	"os"
	"reflect"
	"runtime"
	"time"

	"github.com/bitcoin-sv/block-headers-service/config"
	"github.com/bitcoin-sv/block-headers-service/internal/chaincfg/chainhash"
	"github.com/bitcoin-sv/block-headers-service/internal/wire"
)

func init() { extraOps["wire"] = opWire }

// C14: the frame-class table emitted by TLC from Wire.tla is concretised into bytes (several seeded instances per
// class) and fed to wire.ReadMessageWithEncodingN; valid frames are additionally round-tripped.

type wireRow struct {
	F struct {
		Kind    string `json:"kind"`
		Hdr     string `json:"hdr"`
		Magic   string `json:"magic"`
		Cmd     string `json:"cmd"`
		Len     string `json:"len"`
		Sum     string `json:"sum"`
		Payload string `json:"payload"`
	} `json:"f"`
	Expect string `json:"expect"`
}

func rhash(r *rand.Rand) *chainhash.Hash {
	var h chainhash.Hash
	r.Read(h[:])
	return &h
}

func rtime32(r *rand.Rand) time.Time {
	pool := []int64{0, 1, 1231006505, 0x7fffffff, 0x80000000, 0xffffffff, time.Now().Unix()}
	if r.Intn(2) == 0 {
		return time.Unix(pool[r.Intn(len(pool))], 0)
	}
	return time.Unix(int64(r.Uint32()), 0)
}

func rnetaddr(r *rand.Rand, withTime bool) wire.NetAddress {
	ip := make(net.IP, 16)
	r.Read(ip)
	switch r.Intn(3) {
	case 0:
		ip = net.IPv4(byte(r.Intn(256)), byte(r.Intn(256)), byte(r.Intn(256)), byte(r.Intn(256))).To16()
	case 1:
		// the 4-byte form, as the IP of a *net.TCPAddr of a live IPv4 connection has it
		ip = net.IP{byte(1 + r.Intn(255)), byte(r.Intn(256)), byte(r.Intn(256)), byte(r.Intn(256))}
	}
	na := wire.NetAddress{Services: wire.ServiceFlag(r.Uint64()), IP: ip, Port: uint16(r.Intn(65536))}
	if withTime {
		na.Timestamp = rtime32(r)
	}
	return na
}

func rheader(r *rand.Rand) *wire.BlockHeader {
	return &wire.BlockHeader{Version: int32(r.Uint32()), PrevBlock: *rhash(r), MerkleRoot: *rhash(r), Timestamp: rtime32(r), Bits: r.Uint32(), Nonce: r.Uint32()}
}

func rstr(r *rand.Rand, n int) string {
	b := make([]byte, n)
	for i := range b {
		b[i] = byte(32 + r.Intn(95))
	}
	return string(b)
}

// genMessage builds a random valid message of a kind (field values within protocol limits).
func genMessage(kind string, r *rand.Rand, pver uint32) wire.Message {
	cnt := func(max int) int {
		switch r.Intn(5) {
		case 0:
			return 0
		case 1:
			return 1
		case 2:
			return max
		}
		return r.Intn(max + 1)
	}
	switch kind {
	case "version":
		m := &wire.MsgVersion{ProtocolVersion: int32(pver), Services: wire.ServiceFlag(r.Uint64()), Timestamp: time.Unix(r.Int63n(1<<40), 0),
			AddrYou: rnetaddr(r, false), AddrMe: rnetaddr(r, false), Nonce: r.Uint64(), UserAgent: rstr(r, cnt(wire.MaxUserAgentLen)), LastBlock: int32(r.Uint32()), DisableRelayTx: r.Intn(2) == 0}
		return m
	case "verack":
		return wire.NewMsgVerAck()
	case "getaddr":
		return wire.NewMsgGetAddr()
	case "sendheaders":
		return wire.NewMsgSendHeaders()
	case "mempool":
		return wire.NewMsgMemPool()
	case "addr":
		m := wire.NewMsgAddr()
		for i, n := 0, cnt(30); i < n; i++ {
			na := rnetaddr(r, true)
			_ = m.AddAddress(&na)
		}
		if r.Intn(2) == 0 { // lists at and just below the limit of 1000 entries
			for len(m.AddrList) < wire.MaxAddrPerMsg-r.Intn(3) {
				na := rnetaddr(r, true)
				_ = m.AddAddress(&na)
			}
		}
		return m
	case "getheaders", "getblocks":
		n := cnt(40)
		if r.Intn(8) == 0 {
			n = wire.MaxBlockLocatorsPerMsg
		}
		if kind == "getheaders" {
			m := wire.NewMsgGetHeaders()
			m.ProtocolVersion = r.Uint32()
			m.HashStop = *rhash(r)
			for i := 0; i < n; i++ {
				_ = m.AddBlockLocatorHash(rhash(r))
			}
			return m
		}
		m := wire.NewMsgGetBlocks(rhash(r))
		m.ProtocolVersion = r.Uint32()
		for i := 0; i < n; i++ {
			_ = m.AddBlockLocatorHash(rhash(r))
		}
		return m
	case "headers":
		m := wire.NewMsgHeaders()
		n := cnt(20)
		if r.Intn(10) == 0 {
			n = wire.MaxBlockHeadersPerMsg
		}
		for i := 0; i < n; i++ {
			_ = m.AddBlockHeader(rheader(r))
		}
		return m
	case "inv", "getdata", "notfound":
		n := cnt(50)
		ivs := make([]*wire.InvVect, n)
		for i := range ivs {
			ivs[i] = wire.NewInvVect(wire.InvType(r.Intn(4)), rhash(r))
		}
		switch kind {
		case "inv":
			m := wire.NewMsgInv()
			for _, iv := range ivs {
				_ = m.AddInvVect(iv)
			}
			return m
		case "getdata":
			m := wire.NewMsgGetData()
			for _, iv := range ivs {
				_ = m.AddInvVect(iv)
			}
			return m
		}
		m := wire.NewMsgNotFound()
		for _, iv := range ivs {
			_ = m.AddInvVect(iv)
		}
		return m
	case "ping":
		return wire.NewMsgPing(r.Uint64())
	case "pong":
		return wire.NewMsgPong(r.Uint64())
	case "reject":
		cmds := []string{wire.CmdBlock, wire.CmdTx, wire.CmdVersion, wire.CmdHeaders, "x"}
		m := wire.NewMsgReject(cmds[r.Intn(len(cmds))], wire.RejectCode(r.Intn(256)), rstr(r, cnt(120)))
		if m.Cmd == wire.CmdBlock || m.Cmd == wire.CmdTx {
			m.Hash = *rhash(r)
		}
		return m
	case "feefilter":
		return wire.NewMsgFeeFilter(int64(r.Uint64()))
	case "protoconf", "authch":
		return wire.NewMsgProtoconf(r.Uint32())
	}
	return nil
}

// eqVal compares decoded and original messages: times by Unix seconds, nil and empty slices alike.
func eqVal(a, b reflect.Value) bool {
	if a.Type() != b.Type() {
		return false
	}
	if a.Type() == reflect.TypeOf(time.Time{}) {
		return a.Interface().(time.Time).Unix() == b.Interface().(time.Time).Unix()
	}
	if a.Type() == reflect.TypeOf(net.IP{}) {
		// an address is the same address in its 4-byte and its 16-byte form
		return a.Interface().(net.IP).Equal(b.Interface().(net.IP))
	}
	switch a.Kind() {
	case reflect.Ptr, reflect.Interface:
		if a.IsNil() || b.IsNil() {
			return a.IsNil() == b.IsNil()
		}
		return eqVal(a.Elem(), b.Elem())
	case reflect.Struct:
		for i := 0; i < a.NumField(); i++ {
			if !eqVal(a.Field(i), b.Field(i)) {
				return false
			}
		}
		return true
	case reflect.Slice, reflect.Array:
		if a.Len() != b.Len() {
			return false
		}
		for i := 0; i < a.Len(); i++ {
			if !eqVal(a.Index(i), b.Index(i)) {
				return false
			}
		}
		return true
	default:
		return reflect.DeepEqual(a.Interface(), b.Interface())
	}
}

func dsha(b []byte) []byte {
	a := sha256.Sum256(b)
	c := sha256.Sum256(a[:])
	return c[:4]
}

var countOffset = map[string]int{"addr": 0, "inv": 0, "getdata": 0, "notfound": 0, "headers": 0, "getheaders": 4, "getblocks": 4, "version": 80, "reject": 0}

func opWire() error {
	raw, err := os.ReadFile(os.Getenv("VERIF_IN"))
	if err != nil {
		return err
	}
	var tbl struct {
		Rows []wireRow `json:"rows"`
	}
	if err := json.Unmarshal(raw, &tbl); err != nil {
		return err
	}
	seed := envInt("VERIF_SEED", 1)
	inst := int(envInt("VERIF_INSTANCES", 3))
	shard, nshard := int(envInt("VERIF_SHARD", 0)), int(envInt("VERIF_NSHARD", 1))
	rng := rand.New(rand.NewSource(seed*31 + int64(shard)))
	wire.SetLimits(config.ExcessiveBlockSize)
	net0 := wire.TestNet
	pvers := []uint32{wire.ProtocolVersion, wire.SendHeadersVersion, wire.RejectVersion}
	res := Result{DevUsed: map[string]int{}, Stats: map[string]int{}}
	var out []Mismatch
	t0 := time.Now()
	for ri, row := range tbl.Rows {
		if ri%nshard != shard {
			continue
		}
		f := row.F
		for k := 0; k < inst; k++ {
			pver := pvers[rng.Intn(len(pvers))]
			if f.Kind == "addr" && rng.Intn(5) < 3 {
				// the address format (and with it the size limit of an addr message) changes at NetAddressTimeVersion
				// (below it addresses carry no timestamp, so only versions from it upwards round-trip a generated message)
				pver = []uint32{wire.NetAddressTimeVersion, wire.NetAddressTimeVersion + 1}[rng.Intn(2)]
			}
			msg := genMessage(f.Kind, rng, pver)
			var pbuf bytes.Buffer
			if err := msg.BsvEncode(&pbuf, pver, wire.BaseEncoding); err != nil {
				res.Stats["unencodable@pver"]++
				continue
			}
			payload := pbuf.Bytes()
			cmdName := msg.Command()
			if f.Kind == "authch" {
				cmdName = wire.CmdAuthch
			}
			// ---- payload class
			switch f.Payload {
			case "truncatedInside":
				if len(payload) < 2 {
					continue
				}
				payload = payload[:1+rng.Intn(len(payload)-1)]
			case "countInflated":
				off := countOffset[f.Kind]
				if off >= len(payload) || payload[off] >= 0xfc {
					continue
				}
				p2 := append([]byte(nil), payload...)
				if rng.Intn(2) == 0 {
					p2[off] = payload[off] + 1 + byte(rng.Intn(int(0xfc-payload[off])))
				} else { // a canonical huge count
					big := make([]byte, 5)
					big[0] = 0xfe
					binary.LittleEndian.PutUint32(big[1:], 0x00010000+rng.Uint32()%0x7fff0000)
					p2 = append(append(append([]byte(nil), payload[:off]...), big...), payload[off+1:]...)
				}
				payload = p2
			case "countHuge":
				off := countOffset[f.Kind]
				if off >= len(payload) || payload[off] >= 0xfd {
					continue
				}
				big := make([]byte, 9)
				big[0] = 0xff
				v := []uint64{1 << 63, ^uint64(0), 1<<63 + uint64(rng.Int63()), 1<<63 - 1, 1 << 32, 1<<31 + uint64(rng.Int31())}[rng.Intn(6)]
				binary.LittleEndian.PutUint64(big[1:], v)
				payload = append(append(append([]byte(nil), payload[:off]...), big...), payload[off+1:]...)
			case "trailingGarbage":
				g := make([]byte, 1+rng.Intn(64))
				rng.Read(g)
				payload = append(append([]byte(nil), payload...), g...)
			case "bitflip":
				if len(payload) == 0 {
					continue
				}
				p2 := append([]byte(nil), payload...)
				p2[rng.Intn(len(p2))] ^= 1 << uint(rng.Intn(8))
				payload = p2
			}
			// ---- header
			hdr := make([]byte, 24)
			magic := uint32(net0)
			switch f.Magic {
			case "othernet":
				magic = uint32(wire.MainNet)
			case "garbage":
				magic = rng.Uint32()
				if magic == uint32(net0) {
					magic++
				}
			}
			binary.LittleEndian.PutUint32(hdr[0:], magic)
			cmd := make([]byte, 12)
			copy(cmd, cmdName)
			switch f.Cmd {
			case "unknown":
				copy(cmd, []byte(rstr(rng, 1+rng.Intn(11))))
				copy(cmd, "zz")
			case "nonutf8":
				cmd[0], cmd[1+rng.Intn(5)] = 0xff, 0xfe
			case "nulsplice":
				if len(cmdName) >= 11 {
					cmd[11] = 'x'
					cmd[len(cmdName)] = 0
					if len(cmdName) == 11 {
						continue
					}
				}
				cmd[len(cmdName)+1+rng.Intn(12-len(cmdName)-1)] = byte(1 + rng.Intn(255))
			}
			copy(hdr[4:], cmd)
			declared := uint32(len(payload))
			stream := payload
			switch f.Len {
			case "declaredLonger":
				declared += 1 + uint32(rng.Intn(100))
			case "declaredShorter":
				if len(payload) == 0 {
					continue // nothing to cut (e.g. a ping of a protocol version without a nonce)
				}
				declared -= 1 + uint32(rng.Intn(len(payload)))
			case "overType":
				declared = msg.MaxPayloadLength(pver) + 1 + uint32(rng.Intn(1000))
				if rng.Intn(2) == 0 {
					// far over the type's limit but under the overall one: a frame that is REJECTED must not cost its announced length
					declared = msg.MaxPayloadLength(pver) + 16<<20 + uint32(rng.Intn(64<<20))
				}
			case "overGlobal":
				declared = 0xffffffff - uint32(rng.Intn(1000))
			}
			if (f.Magic != "ok" || f.Cmd != "known") && f.Len == "exact" && rng.Intn(3) == 0 {
				// a frame rejected for its magic or command announces a large payload it does not carry
				declared = 16<<20 + uint32(rng.Intn(64<<20))
			}
			binary.LittleEndian.PutUint32(hdr[16:], declared)
			sum := dsha(payload)
			if f.Sum == "bad" {
				sum = []byte{sum[0] ^ 0xff, sum[1], sum[2] ^ 1, sum[3]}
			}
			copy(hdr[20:], sum)
			frame := append(hdr, stream...)
			if f.Hdr == "short" {
				frame = frame[:rng.Intn(24)]
			}
			// ---- decode under a watchdog, with allocation accounting
			type ans struct {
				msg   wire.Message
				err   error
				panic string
				alloc uint64
			}
			ch := make(chan ans, 1)
			go func() {
				var a ans
				defer func() {
					if x := recover(); x != nil {
						a.panic = fmt.Sprint(x)
					}
					ch <- a
				}()
				var m0, m1 runtime.MemStats
				runtime.ReadMemStats(&m0)
				_, a.msg, _, a.err = wire.ReadMessageWithEncodingN(bytes.NewReader(frame), pver, net0, wire.BaseEncoding)
				runtime.ReadMemStats(&m1)
				a.alloc = m1.TotalAlloc - m0.TotalAlloc
			}()
			var a ans
			select {
			case a = <-ch:
			case <-time.After(20 * time.Second):
				// slow is not stuck: on a busy machine the goroutine may simply not have been scheduled; a decoder that hangs
				// does not answer within five minutes either
				res.Stats["slow-decodes"]++
				select {
				case a = <-ch:
				case <-time.After(5 * time.Minute):
					a.panic = "HANG (no answer in 5 min)"
				}
			}
			res.Queries++
			res.Stats["expect:"+row.Expect]++
			what := fmt.Sprintf("%s pver=%d frame{hdr=%s magic=%s cmd=%s len=%s sum=%s payload=%s} %d bytes", f.Kind, pver, f.Hdr, f.Magic, f.Cmd, f.Len, f.Sum, f.Payload, len(frame))
			fail := func(exp, got string) {
				out = append(out, Mismatch{Beh: ri, Step: k, Kind: "wire", Exp: what + " -> " + exp, Got: got + fmt.Sprintf(" frame=%x", frame[:min(len(frame), 160)])})
			}
			verdict := "reject"
			if a.err == nil && a.panic == "" {
				verdict = "accept"
			}
			if a.panic != "" {
				fail("no panic / hang", a.panic)
				continue
			}
			if row.Expect != "any" && verdict != row.Expect {
				fail(row.Expect, fmt.Sprintf("%s (%v)", verdict, a.err))
			}
			// allocation: never (much) more than the frame itself plus the per-type structures; 48 MB is far above any legitimate need here
			rejectedAtHeader := f.Len == "overType" || f.Len == "overGlobal" || f.Magic != "ok" || f.Cmd != "known"
			if !rejectedAtHeader && a.alloc > 2*uint64(declared)+8<<20 || rejectedAtHeader && a.alloc > 8<<20 {
				fail("allocation bounded by the declared payload length", fmt.Sprintf("%d bytes allocated for a %d byte frame declaring %d", a.alloc, len(frame), declared))
			}
			if row.Expect == "accept" && verdict == "accept" {
				// decode(encode(m)) = m and encode(decode(bytes)) = bytes, through WriteMessage as well
				// (protoconf and authch are decoded without interpreting the payload - the property's round trip is about the other kinds)
				if f.Kind != "authch" && f.Kind != "protoconf" && !eqVal(reflect.ValueOf(a.msg), reflect.ValueOf(msg)) {
					fail("decoded message equals the encoded one", fmt.Sprintf("sent %+v got %+v", msg, a.msg))
				}
				if f.Kind != "authch" && f.Kind != "protoconf" {
					var w1, w2 bytes.Buffer
					if err := wire.WriteMessage(&w1, msg, pver, net0); err != nil {
						fail("WriteMessage ok", err.Error())
					} else if !bytes.Equal(w1.Bytes(), frame) {
						fail("WriteMessage produces the same frame", fmt.Sprintf("%x", w1.Bytes()[:min(w1.Len(), 120)]))
					}
					if err := wire.WriteMessage(&w2, a.msg, pver, net0); err != nil || !bytes.Equal(w2.Bytes(), frame) {
						fail("re-encoding the decoded message reproduces the bytes", fmt.Sprintf("%v %x", err, w2.Bytes()[:min(w2.Len(), 120)]))
					}
				}
				res.Stats["roundtrips"]++
			}
		}
	}
	// raw random bytes and random mutations of valid frames: never a panic, a hang or a huge allocation
	nraw := int(envInt("VERIF_RAW", 2000))
	kinds := []string{"version", "addr", "getheaders", "headers", "inv", "reject", "ping", "feefilter", "protoconf"}
	for i := 0; i < nraw; i++ {
		var frame []byte
		if i%2 == 0 {
			frame = make([]byte, rng.Intn(200))
			rng.Read(frame)
			if len(frame) >= 4 && rng.Intn(2) == 0 {
				binary.LittleEndian.PutUint32(frame, uint32(net0))
			}
		} else {
			m := genMessage(kinds[rng.Intn(len(kinds))], rng, wire.ProtocolVersion)
			var w bytes.Buffer
			if wire.WriteMessage(&w, m, wire.ProtocolVersion, net0) != nil {
				continue
			}
			frame = w.Bytes()
			for j, n := 0, 1+rng.Intn(4); j < n && len(frame) > 0; j++ {
				switch rng.Intn(3) {
				case 0:
					frame[rng.Intn(len(frame))] ^= 1 << uint(rng.Intn(8))
				case 1:
					frame = frame[:rng.Intn(len(frame)+1)]
				case 2:
					p := rng.Intn(len(frame))
					frame = append(append(append([]byte(nil), frame[:p]...), frame[rng.Intn(len(frame)):]...), frame[p:]...)
				}
			}
		}
		done := make(chan string, 1)
		go func() {
			defer func() {
				if x := recover(); x != nil {
					done <- "panic: " + fmt.Sprint(x)
				}
			}()
			var m0, m1 runtime.MemStats
			runtime.ReadMemStats(&m0)
			_, _, _, _ = wire.ReadMessageWithEncodingN(bytes.NewReader(frame), wire.ProtocolVersion, net0, wire.BaseEncoding)
			runtime.ReadMemStats(&m1)
			decl := uint64(0)
			if len(frame) >= 24 {
				decl = uint64(binary.LittleEndian.Uint32(frame[16:20]))
			}
			if d := m1.TotalAlloc - m0.TotalAlloc; d > 2*decl+8<<20 {
				done <- fmt.Sprintf("allocated %d bytes", d)
				return
			}
			done <- ""
		}()
		select {
		case s := <-done:
			if s != "" {
				out = append(out, Mismatch{Beh: -1, Step: i, Kind: "wire", Exp: "mutated/random bytes: error or message, no panic, bounded allocation", Got: fmt.Sprintf("%s frame=%x", s, frame[:min(len(frame), 200)])})
			}
		case <-time.After(20 * time.Second):
			res.Stats["slow-decodes"]++ // slow is not stuck (busy machine): only no answer within five minutes is a hang
			select {
			case s := <-done:
				if s != "" {
					out = append(out, Mismatch{Beh: -1, Step: i, Kind: "wire", Exp: "mutated/random bytes: error or message, no panic, bounded allocation", Got: fmt.Sprintf("%s frame=%x", s, frame[:min(len(frame), 200)])})
				}
			case <-time.After(5 * time.Minute):
				out = append(out, Mismatch{Beh: -1, Step: i, Kind: "wire", Exp: "no hang", Got: fmt.Sprintf("frame=%x", frame[:min(len(frame), 200)])})
			}
		}
		res.Stats["raw"]++
	}
	res.Behaviours = len(tbl.Rows)
	res.Steps = res.Queries
	res.Mismatches = out
	res.WallS = time.Since(t0).Seconds()
	res.Samples = []string{string(raw[:min(len(raw), 500)])}
	js, _ := json.Marshal(res)
	return os.WriteFile(os.Getenv("VERIF_OUT"), js, 0o644)
}
