package chainh

import (
	"context"
	stdsql "database/sql"
	"database/sql/driver"
	"sync"

	sqlite3 "github.com/mattn/go-sqlite3"
)

// C15, readers at STATEMENT granularity.  A reader goroutine works over its own handle of the same database file, opened
// through this thin database/sql driver: every statement it issues waits at the scheduler's gate, and the grant is held
// until the statement's rows are closed.  A service read that is one SQL statement is therefore one scheduled step (as
// before); a read that needs several statements is several steps, and the scheduler interleaves the submitters' repository
// calls between them - which is what happens in production, where nothing serialises a reader with a writer.

// stmtEnter is installed by opConc: it returns the release function of the calling goroutine's grant (nil: not a
// scheduled reader, run freely).
var stmtEnter func() func()

type gateDriver struct{}

func (gateDriver) Open(name string) (driver.Conn, error) {
	c, err := (&sqlite3.SQLiteDriver{}).Open(name)
	if err != nil {
		return nil, err
	}
	return &gateConn{SQLiteConn: c.(*sqlite3.SQLiteConn)}, nil
}

type gateConn struct{ *sqlite3.SQLiteConn }

type gateRows struct {
	driver.Rows
	once    sync.Once
	release func()
}

func (r *gateRows) Close() error {
	err := r.Rows.Close()
	r.once.Do(r.release)
	return err
}

func enterStmt() func() {
	if stmtEnter == nil {
		return nil
	}
	return stmtEnter()
}

func (c *gateConn) QueryContext(ctx context.Context, q string, args []driver.NamedValue) (driver.Rows, error) {
	rel := enterStmt()
	rows, err := c.SQLiteConn.QueryContext(ctx, q, args)
	if rel == nil {
		return rows, err
	}
	if err != nil {
		rel()
		return rows, err
	}
	return &gateRows{Rows: rows, release: rel}, nil
}

func (c *gateConn) ExecContext(ctx context.Context, q string, args []driver.NamedValue) (driver.Result, error) {
	if rel := enterStmt(); rel != nil {
		defer rel()
	}
	return c.SQLiteConn.ExecContext(ctx, q, args)
}

func (c *gateConn) PrepareContext(ctx context.Context, q string) (driver.Stmt, error) {
	st, err := c.SQLiteConn.PrepareContext(ctx, q)
	if err != nil {
		return st, err
	}
	return &gateStmt{SQLiteStmt: st.(*sqlite3.SQLiteStmt)}, nil
}

func (c *gateConn) Prepare(q string) (driver.Stmt, error) { return c.PrepareContext(context.Background(), q) }

type gateStmt struct{ *sqlite3.SQLiteStmt }

func (s *gateStmt) QueryContext(ctx context.Context, args []driver.NamedValue) (driver.Rows, error) {
	rel := enterStmt()
	rows, err := s.SQLiteStmt.QueryContext(ctx, args)
	if rel == nil {
		return rows, err
	}
	if err != nil {
		rel()
		return rows, err
	}
	return &gateRows{Rows: rows, release: rel}, nil
}

func (s *gateStmt) ExecContext(ctx context.Context, args []driver.NamedValue) (driver.Result, error) {
	if rel := enterStmt(); rel != nil {
		defer rel()
	}
	return s.SQLiteStmt.ExecContext(ctx, args)
}

func init() { stdsql.Register("sqlite3_verif_gate", gateDriver{}) }
