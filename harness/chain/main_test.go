package chainh

import (
	"bufio"
	"encoding/json"
	"fmt"
	"os"
	"testing"
	"time"
)

// TestHarness is the entry point: VERIF_OP selects what to do.
//
//	replay : VERIF_IN = file of JSON behaviours (one per line), VERIF_OUT = result file, VERIF_DB = sqlite path
func TestHarness(t *testing.T) {
	op := os.Getenv("VERIF_OP")
	switch op {
	case "replay":
		if err := opReplay(); err != nil {
			fmt.Fprintln(os.Stderr, "HARNESS-ERROR:", err)
			os.Exit(2)
		}
	case "":
		t.Skip("no VERIF_OP")
	default:
		if f, ok := extraOps[op]; ok {
			if err := f(); err != nil {
				fmt.Fprintln(os.Stderr, "HARNESS-ERROR:", err)
				os.Exit(2)
			}
			return
		}
		fmt.Fprintln(os.Stderr, "HARNESS-ERROR: unknown VERIF_OP", op)
		os.Exit(2)
	}
}

func opReplay() error {
	in, err := os.Open(os.Getenv("VERIF_IN"))
	if err != nil {
		return err
	}
	defer in.Close()
	seed := envInt("VERIF_SEED", 1)
	rp, err := NewReplayer(os.Getenv("VERIF_DB"), seed)
	if err != nil {
		return err
	}
	rp.Level = int(envInt("VERIF_LEVEL", 1))
	rp.Notify = os.Getenv("VERIF_NOTIFY") == "1"
	journal, _ := os.Create(os.Getenv("VERIF_OUT") + ".journal")
	t0 := time.Now()
	res := Result{DevUsed: map[string]int{}}
	sc := bufio.NewScanner(in)
	sc.Buffer(make([]byte, 1<<20), 1<<28)
	idx := 0
	base := int(envInt("VERIF_BASE", 0))
	for sc.Scan() {
		line := sc.Bytes()
		if len(line) == 0 {
			continue
		}
		var b Behaviour
		if err := json.Unmarshal(line, &b); err != nil {
			return fmt.Errorf("line %d: %v", idx, err)
		}
		if journal != nil {
			fmt.Fprintf(journal, "BEGIN %d\n", base+idx)
		}
		nb := len(rp.Out)
		if err := rp.Run(base+idx, &b); err != nil {
			if err == errWedged {
				idx++
				break // report what was found; nothing more can be asked of this process
			}
			return fmt.Errorf("behaviour %d: %v", idx, err)
		}
		for _, s := range b.Hist {
			if s.Dev != "" {
				res.DevUsed[s.Dev]++
				break
			}
		}
		if idx < 2 || (len(rp.Out) > nb && len(res.Samples) < 6) {
			res.Samples = append(res.Samples, string(line[:min(len(line), 4000)]))
		}
		idx++
		if len(rp.Out) > 2000 {
			break
		}
	}
	if err := sc.Err(); err != nil {
		return err
	}
	res.Behaviours = idx
	res.Steps = rp.Steps
	res.Queries = rp.Queries
	res.Stats = rp.Stats
	res.Mismatches = rp.Out
	res.WallS = time.Since(t0).Seconds()
	out, _ := json.Marshal(res)
	return os.WriteFile(os.Getenv("VERIF_OUT"), out, 0o644)
}
