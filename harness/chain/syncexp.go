package chainh

import (
	"bufio"
	"encoding/json"
	"fmt"
	"net"
	"os"
	"sync"
	"time"

	"github.com/bitcoin-sv/block-headers-service/internal/chaincfg"
	"github.com/bitcoin-sv/block-headers-service/internal/chaincfg/chainhash"
	exppeer "github.com/bitcoin-sv/block-headers-service/internal/transports/p2p/peer"
	"github.com/bitcoin-sv/block-headers-service/internal/wire"
)

func init() { extraOps["syncexp"] = opSyncExp }

// C06 / C07 for the EXPERIMENTAL engine: lock-step replay of SyncExp.tla behaviours on the real
// internal/transports/p2p/peer.Peer (NewPeer + Connect + StartHeadersSync) over loopback TCP against one scripted node.

type xSent struct {
	T    string `json:"t"`
	Loc  []int  `json:"loc"`
	Stop int    `json:"stop"`
}

type xStep struct {
	Kind string   `json:"kind"`
	Op   string   `json:"op"`
	B    int      `json:"b"`
	How  string   `json:"how"`
	Ids  []int    `json:"ids"`
	Sent []xSent  `json:"sent"`
	Tip  int      `json:"tip"`
	St   []string `json:"st"`
	Conn bool     `json:"conn"`
	Raw  bool     `json:"raw"` // env reply: the node ignores the stop hash
}

type xBeh struct {
	Hist []xStep `json:"hist"`
	Scn  struct {
		Par    []int  `json:"par"`
		Cps    []int  `json:"cps"`
		Forbid []int  `json:"forbid"`
		Cap    int    `json:"cap"`
		Name   string `json:"name"`
		Findings []string `json:"findings"`
	} `json:"scn"`
	Final *struct {
		St      []string `json:"st"`
		Tip     int      `json:"tip"`
		BestOff int      `json:"bestoff"`
		Best    []int    `json:"best"`
		Conv    bool     `json:"conv"`
		Why     string   `json:"why"`
		Served  *struct {
			Sent bool  `json:"sent"`
			Ids  []int `json:"ids"`
		} `json:"served"`
	} `json:"final"`
}

type xNode struct {
	conn   net.Conn
	mu     sync.Mutex
	got    []xSent
	closed bool
	pongs  chan uint64
	netw   wire.BitcoinNet
	byHash map[chainhash.Hash]int
	best   int
	asked  int
	hdrs   [][]int // headers messages received from the engine
}

func (n *xNode) send(m wire.Message) error { return wire.WriteMessage(n.conn, m, wire.ProtocolVersion, n.netw) }

func (n *xNode) reader() {
	for {
		m, _, err := wire.ReadMessage(n.conn, wire.ProtocolVersion, n.netw)
		if err != nil {
			if _, ok := err.(*wire.MessageError); ok {
				continue
			}
			n.mu.Lock()
			n.closed = true
			n.mu.Unlock()
			close(n.pongs)
			return
		}
		switch mm := m.(type) {
		case *wire.MsgPing:
			_ = n.send(wire.NewMsgPong(mm.Nonce))
		case *wire.MsgPong:
			n.pongs <- mm.Nonce
		case *wire.MsgSendHeaders:
			n.mu.Lock()
			n.got = append(n.got, xSent{T: "sendheaders", Loc: []int{}, Stop: -1})
			n.mu.Unlock()
		case *wire.MsgHeaders:
			ids := []int{}
			for _, h := range mm.Headers {
				if id, ok := n.byHash[h.BlockHash()]; ok {
					ids = append(ids, id)
				} else {
					ids = append(ids, -77)
				}
			}
			n.mu.Lock()
			n.hdrs = append(n.hdrs, ids)
			n.mu.Unlock()
		case *wire.MsgGetHeaders:
			s := xSent{T: "gh", Stop: -1, Loc: []int{}}
			for _, h := range mm.BlockLocatorHashes {
				if id, ok := n.byHash[*h]; ok {
					s.Loc = append(s.Loc, id)
				} else {
					s.Loc = append(s.Loc, -77)
				}
			}
			if mm.HashStop != (chainhash.Hash{}) {
				s.Stop = -77
				if id, ok := n.byHash[mm.HashStop]; ok {
					s.Stop = id
				}
			}
			n.mu.Lock()
			n.got = append(n.got, s)
			n.mu.Unlock()
		}
	}
}

func (n *xNode) isClosed() bool { n.mu.Lock(); defer n.mu.Unlock(); return n.closed }

func (n *xNode) barrier(nonce uint64) bool {
	if n.isClosed() || n.send(wire.NewMsgPing(nonce)) != nil {
		return false
	}
	for {
		select {
		case v, ok := <-n.pongs:
			if !ok {
				return false
			}
			if v == nonce {
				return true
			}
		case <-time.After(15 * time.Second):
			xShaky = true // a live connection that does not answer a ping in 15 s: too busy for a verdict
			return false
		}
	}
}

var xShaky bool

// release stops the goroutines of an engine peer (Disconnect closes quit; an engine that disconnected itself has
// already done so, and a second close panics - recovered here; its own reader goroutine then stays parked in wg.Wait).
func release(e *exppeer.Peer) {
	if e == nil {
		return
	}
	done := make(chan struct{})
	go func() {
		defer func() { _ = recover(); close(done) }()
		e.Disconnect()
	}()
	select {
	case <-done:
	case <-time.After(2 * time.Second):
	}
}

func opSyncExp() error {
	in, err := os.Open(os.Getenv("VERIF_IN"))
	if err != nil {
		return err
	}
	defer in.Close()
	res := Result{DevUsed: map[string]int{}, Stats: map[string]int{}}
	var out []Mismatch
	t0 := time.Now()
	sc := bufio.NewScanner(in)
	sc.Buffer(make([]byte, 1<<20), 1<<27)
	idx := 0
	var nonce uint64
	for sc.Scan() {
		var b xBeh
		if err := json.Unmarshal(sc.Bytes(), &b); err != nil {
			return err
		}
		nb := len(b.Scn.Par)
		// blocks
		g := chaincfg.RegressionNetParams.GenesisBlock.Header
		blocks := make([]wire.BlockHeader, nb+1)
		hashes := make([]chainhash.Hash, nb+1)
		heights := make([]int, nb+1)
		byHash := map[chainhash.Hash]int{}
		blocks[0], hashes[0] = g, g.BlockHash()
		now := time.Now().Add(-time.Hour).Unix()
		for i := 1; i <= nb; i++ {
			p := b.Scn.Par[i-1]
			heights[i] = heights[p] + 1
			blocks[i] = wire.BlockHeader{Version: 1, PrevBlock: hashes[p], MerkleRoot: chainhash.Hash{byte(i), 0xee}, Timestamp: time.Unix(now+int64(i), 0), Bits: 0x207fffff, Nonce: uint32(i)}
			hashes[i] = blocks[i].BlockHash()
		}
		for i, h := range hashes {
			byHash[h] = i
		}
		params := chaincfg.RegressionNetParams
		params.Checkpoints = nil
		for _, c := range b.Scn.Cps {
			h := hashes[c]
			params.Checkpoints = append(params.Checkpoints, chaincfg.Checkpoint{Height: int32(heights[c]), Hash: &h})
		}
		for i := range params.Checkpoints {
			for j := i + 1; j < len(params.Checkpoints); j++ {
				if params.Checkpoints[j].Height < params.Checkpoints[i].Height {
					params.Checkpoints[i], params.Checkpoints[j] = params.Checkpoints[j], params.Checkpoints[i]
				}
			}
		}
		var forb []*chainhash.Hash
		for _, f := range b.Scn.Forbid {
			h := hashes[f]
			forb = append(forb, &h)
		}
		chaincfg.RegressionNetParams.HeadersToIgnore = forb
		dbPath := fmt.Sprintf("%s.x%d", os.Getenv("VERIF_DB"), idx)
		st := &Stack{Cfg: NewConfig(dbPath)}
		if err := st.Open(); err != nil {
			return err
		}
		ln, err := PatientListen("tcp", "127.0.0.1:0")
		if err != nil {
			return err
		}
		miss := func(k int, kind, exp, got string) { out = append(out, Mismatch{Beh: idx, Step: k, Kind: kind, Exp: exp, Got: got}) }
		var node *xNode
		var eng *exppeer.Peer
		drifted := false
		xShaky = false
		outAtStart := len(out)
		consumed := 0
		headersMsg := func(ids []int) *wire.MsgHeaders {
			m := wire.NewMsgHeaders()
			for _, id := range ids {
				h := blocks[id]
				_ = m.AddBlockHeader(&h)
			}
			return m
		}
		chainOf := func(bb int) []int {
			var c []int
			for x := bb; x != 0; x = b.Scn.Par[x-1] {
				c = append([]int{x}, c...)
			}
			return append([]int{0}, c...)
		}
		proto := func(best int, rq xSent) []int {
			ch := chainOf(best)
			pos := map[int]int{}
			for i, id := range ch {
				pos[id] = i
			}
			start := 0
			for _, l := range rq.Loc {
				if i, ok := pos[l]; ok {
					start = i
					break
				}
			}
			end := len(ch) - 1
			if i, ok := pos[rq.Stop]; ok && rq.Stop >= 0 && i > start && i < end {
				end = i
			}
			if start+b.Scn.Cap < end {
				end = start + b.Scn.Cap
			}
			if end <= start {
				return nil
			}
			return ch[start+1 : end+1]
		}
		observe := func() ([]string, int) {
			rows, _ := st.Rows()
			s := make([]string, nb+1)
			for i := 0; i <= nb; i++ {
				if r, ok := rows[hashes[i].String()]; ok {
					s[i] = map[string]string{"LONGEST_CHAIN": "L", "STALE": "S", "ORPHAN": "O"}[r.State]
				} else {
					s[i] = "-"
				}
			}
			tip := -1
			if t := st.Svc.Headers.GetTip(); t != nil {
				tip = byHash[t.Hash]
			}
			return s, tip
		}
		for k := 0; k < len(b.Hist); k++ {
			e := b.Hist[k]
			if e.Kind != "env" {
				continue
			}
			res.Steps++
			res.Stats["env:"+e.Op]++
			// expectations: this env record's own observation (Start sends at once) plus the following engine steps
			exp := append([]xSent(nil), e.Sent...)
			last := e
			for j := k + 1; j < len(b.Hist) && b.Hist[j].Kind == "x"; j++ {
				exp = append(exp, b.Hist[j].Sent...)
				last = b.Hist[j]
			}
			storedH := func() map[int]int {
				rows, _ := st.Rows()
				m := map[int]int{}
				for i := 0; i <= nb; i++ {
					if r, ok := rows[hashes[i].String()]; ok {
						m[i] = int(r.Height)
					}
				}
				return m
			}
			before := storedH()
			switch e.Op {
			case "start":
				release(eng)
				eng = nil
				acc := make(chan net.Conn, 1)
				go func() { c, _ := ln.Accept(); acc <- c }()
				c, err := PatientDial(&net.Dialer{}, "tcp", ln.Addr().String())
				if err != nil {
					return err
				}
				srvSide := <-acc
				node = &xNode{conn: srvSide, pongs: make(chan uint64, 16), netw: params.Net, byHash: byHash, best: e.B}
				consumed = 0
				// the node side of the handshake runs concurrently with the engine's Connect
				hs := make(chan error, 1)
				go func() {
					m, _, err := wire.ReadMessage(srvSide, wire.ProtocolVersion, params.Net)
					if err != nil {
						hs <- err
						return
					}
					if _, ok := m.(*wire.MsgVersion); !ok {
						hs <- fmt.Errorf("expected version, got %T", m)
						return
					}
					me := wire.NewNetAddressIPPort(net.IPv4(127, 0, 0, 1), 18444, wire.SFNodeNetwork)
					ver := wire.NewMsgVersion(me, me, uint64(time.Now().UnixNano()), int32(heights[e.B]))
					ver.AddService(wire.SFNodeNetwork)
					_ = ver.AddUserAgent("verif-node", "1.0")
					if err := node.send(ver); err != nil {
						hs <- err
						return
					}
					if err := node.send(wire.NewMsgVerAck()); err != nil {
						hs <- err
						return
					}
					_, _, err = wire.ReadMessage(srvSide, wire.ProtocolVersion, params.Net) // verack
					hs <- err
				}()
				lg := st.Log()
				eng, err = exppeer.NewPeer(c, false, st.Cfg.P2P, &params, st.Svc.Headers, st.Svc.Chains, lg)
				if err != nil {
					return err
				}
				if err := eng.Connect(); err != nil {
					return fmt.Errorf("engine Connect: %v", err)
				}
				if err := <-hs; err != nil {
					return fmt.Errorf("node handshake: %v", err)
				}
				go node.reader()
				if err := eng.StartHeadersSync(); err != nil {
					miss(k, "sync-drift", "StartHeadersSync ok", err.Error())
				}
			case "reply":
				node.mu.Lock()
				var rq *xSent
				for node.asked < len(node.got) {
					r := node.got[node.asked]
					node.asked++
					if r.T == "gh" {
						rq = &r
						break
					}
				}
				node.mu.Unlock()
				if rq == nil || node.isClosed() {
					if !drifted {
						miss(k, "sync-drift", "the node has a getheaders to answer", "none pending")
					}
					drifted = true
					continue
				}
				if e.Raw {
					rq.Stop = -1
				}
				ids := proto(node.best, *rq)
				if fmt.Sprint(ids) != fmt.Sprint(e.Ids) && !(len(ids) == 0 && len(e.Ids) == 0) && !drifted {
					miss(k, "sync-drift", fmt.Sprintf("the node answers %v", e.Ids), fmt.Sprintf("request %+v is answered %v", *rq, ids))
					drifted = true
				}
				_ = node.send(headersMsg(ids))
			case "announce":
				node.best = e.B
				if node.isClosed() {
					continue
				}
				if e.How == "inv" {
					inv := wire.NewMsgInv()
					h := hashes[e.B]
					_ = inv.AddInvVect(wire.NewInvVect(wire.InvTypeBlock, &h))
					_ = node.send(inv)
				} else {
					_ = node.send(headersMsg([]int{e.B}))
				}
			case "close":
				_ = node.conn.Close()
				// the engine's reader would now spin on the dead connection until quit is closed: shut it down as its owner would
				release(eng)
				eng = nil
			}
			// wait for the expected messages / closure, then barrier
			wantClosed := false
			var wantMsgs []xSent
			for _, s := range exp {
				if s.T == "closed" {
					wantClosed = true
				} else {
					wantMsgs = append(wantMsgs, s)
				}
			}
			deadline := time.Now().Add(12 * time.Second)
			if drifted {
				deadline = time.Now().Add(20 * time.Millisecond)
			}
			for time.Now().Before(deadline) {
				node.mu.Lock()
				ok := len(node.got)-consumed >= len(wantMsgs) && (!wantClosed || node.closed)
				node.mu.Unlock()
				if ok {
					break
				}
				time.Sleep(200 * time.Microsecond)
			}
			nonce++
			node.barrier(nonce)
			node.mu.Lock()
			got := append([]xSent(nil), node.got[min(consumed, len(node.got)):]...)
			consumed = len(node.got)
			closed := node.closed
			node.mu.Unlock()
			ej, _ := json.Marshal(wantMsgs)
			gj, _ := json.Marshal(got)
			if len(wantMsgs) == 0 {
				ej = []byte("null")
			}
			if len(got) == 0 {
				gj = []byte("null")
			}
			if string(ej) != string(gj) && !drifted {
				// C07: same requests from the same store position (equal locators), but a different stop hash: the checkpoint
				// cursor did not advance as the statement says (next checkpoint after a matching header, unbounded after the last)
				if len(wantMsgs) == len(got) {
					for i := range got {
						if got[i].T == "gh" && wantMsgs[i].T == "gh" && fmt.Sprint(got[i].Loc) == fmt.Sprint(wantMsgs[i].Loc) && got[i].Stop != wantMsgs[i].Stop {
							miss(k, "sync-contain", fmt.Sprintf("after %s(%v) the next request from locator %v stops at block %d (next checkpoint; -1 = unbounded)", e.Op, e.Ids, got[i].Loc, wantMsgs[i].Stop), fmt.Sprintf("stop %d", got[i].Stop))
						}
					}
				}
				miss(k, "sync-drift", fmt.Sprintf("after %s(b%d,%s) the engine sends %s", e.Op, e.B, e.How, ej), string(gj))
				drifted = true
			}
			if wantClosed && !closed {
				miss(k, "sync-contain", fmt.Sprintf("after %s(%v) the engine disconnects the node (forbidden header / checkpoint contradiction)", e.Op, e.Ids), "still connected")
			}
			// C07, stated independently of SyncExp.tla's mechanics: a node that delivered a NEW header which the store now holds
			// at the height of a configured checkpoint, and which is not that checkpoint, must have been disconnected
			if e.Op == "reply" || (e.Op == "announce" && e.How == "headers") {
				after := storedH()
				cpAt := map[int]int{}
				for _, c := range b.Scn.Cps {
					cpAt[len(chainOf(c))-1] = c
				}
				delivered := e.Ids
				if e.Op == "announce" {
					delivered = []int{e.B}
				}
				for _, id := range delivered {
					_, had := before[id]
					h, has := after[id]
					if c, isCp := cpAt[h]; has && !had && isCp && c != id {
						res.Stats["checkpoint-contradictions-delivered"]++
						if !closed && !wantClosed {
							listed := false
							for _, f := range b.Scn.Findings {
								listed = listed || f == "X2-checkpoint-compared-only-at-cursor"
							}
							if listed {
								res.Stats["finding-witness:X2-checkpoint-compared-only-at-cursor"]++
							} else {
								miss(k, "sync-contain", fmt.Sprintf("the node delivered block %d, stored at checkpoint height %d where the checkpoint is block %d: it is disconnected", id, h, c), "still connected")
							}
						}
						break
					}
				}
			}
			if !wantClosed && closed && e.Op != "close" && !drifted {
				miss(k, "sync-drift", fmt.Sprintf("after %s the node stays connected", e.Op), "disconnected by the engine")
				drifted = true
			}
			gotSt, gotTip := observe()
			for _, f := range b.Scn.Forbid {
				if gotSt[f] != "-" {
					miss(k, "sync-contain", fmt.Sprintf("forbidden block %d never stored", f), "stored as "+gotSt[f])
				}
			}
			if !drifted && (fmt.Sprint(gotSt) != fmt.Sprint(last.St) || gotTip != last.Tip) {
				miss(k, "sync-drift", fmt.Sprintf("after %s(b%d) store %v tip %d", e.Op, e.B, last.St, last.Tip), fmt.Sprintf("%v tip %d", gotSt, gotTip))
				drifted = true
			}
		}
		// outcome
		if b.Final != nil && node != nil {
			for round := 0; round < 40 && !node.isClosed(); round++ {
				node.mu.Lock()
				var rq *xSent
				for node.asked < len(node.got) {
					r := node.got[node.asked]
					node.asked++
					if r.T == "gh" {
						rq = &r
						break
					}
				}
				node.mu.Unlock()
				if rq == nil {
					break
				}
				_ = node.send(headersMsg(proto(node.best, *rq)))
				nonce++
				node.barrier(nonce)
			}
			// the node asks the engine for headers (C13): everything after genesis
			if b.Final.Served != nil && !node.isClosed() {
				node.mu.Lock()
				before := len(node.hdrs)
				node.mu.Unlock()
				gh := wire.NewMsgGetHeaders()
				g := hashes[0]
				_ = gh.AddBlockLocatorHash(&g)
				if node.send(gh) == nil {
					nonce++
					node.barrier(nonce)
					nonce++
					node.barrier(nonce)
					node.mu.Lock()
					got := append([][]int(nil), node.hdrs[before:]...)
					node.mu.Unlock()
					res.Stats["asks"]++
					want, have := "no answer", "no answer"
					if b.Final.Served.Sent {
						want = fmt.Sprintf("one headers message %v", append([]int{}, b.Final.Served.Ids...))
					}
					if len(got) == 1 {
						have = fmt.Sprintf("one headers message %v", got[0])
					} else if len(got) > 1 {
						have = fmt.Sprintf("%d headers messages", len(got))
					}
					if have != want {
						miss(len(b.Hist), "sync-serve", "getheaders(locator [genesis]) sent to the engine is answered with "+want, have)
					} else if !b.Final.Served.Sent {
						res.Stats["finding-witness:X1-getheaders-unanswered"]++
					}
				}
			}
			gotSt, gotTip := observe()
			res.Stats["outcomes"]++
			hOf := func(x int) int {
				h := 0
				for x > 0 {
					x = b.Scn.Par[x-1]
					h++
				}
				return h
			}
			gotConv := true
			for _, bo := range b.Final.Best {
				if gotSt[bo] == "-" || hOf(gotTip) < hOf(bo) {
					gotConv = false
				}
			}
			if len(b.Final.Best) > 0 && b.Final.Conv {
				res.Stats["outcome:spec-converges"]++
				if !gotConv {
					miss(len(b.Hist), "sync-outcome", fmt.Sprintf("the store ends holding the node's best chain %v with a tip of at least that work (store %v)", b.Final.Best, b.Final.St), fmt.Sprintf("%v tip %d", gotSt, gotTip))
				}
			} else if len(b.Final.Best) > 0 {
				res.Stats["outcome:spec-does-not-converge"]++
				if gotConv {
					res.Stats["outcome:better-than-spec"]++
				} else {
					res.Stats["finding-witness:"+b.Final.Why]++
				}
			}
		}
		if drifted {
			res.Stats["drifted-behaviours"]++
		}
		if xShaky {
			out = out[:outAtStart]
			res.Stats["inconclusive-behaviours"]++
		}
		if node != nil {
			_ = node.conn.Close()
		}
		release(eng)
		_ = ln.Close()
		st.Close()
		_ = os.Remove(dbPath)
		chaincfg.RegressionNetParams.HeadersToIgnore = nil
		if idx < 1 {
			res.Samples = append(res.Samples, sc.Text()[:min(len(sc.Text()), 3000)])
		}
		idx++
		if len(out) > 150 {
			break
		}
	}
	res.Behaviours, res.Mismatches, res.WallS = idx, out, time.Since(t0).Seconds()
	js, _ := json.Marshal(res)
	return os.WriteFile(os.Getenv("VERIF_OUT"), js, 0o644)
}
