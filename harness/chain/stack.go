// Package chainh is the conformance harness for the Chain family of specifications.
// It is compiled INTO the block-headers-service module through a build overlay (see lib/common.py),
// so it sees the working tree of the repository under test; nothing here re-implements the
// expected behaviour: expectations come from TLC, this code only executes and compares.
package chainh

import (
	"github.com/bitcoin-sv/block-headers-service/metrics"
	"bytes"
	"crypto/sha256"
	"encoding/binary"
	"encoding/hex"
	"fmt"
	"io"
	"math/big"
	"net/http"
	"net/http/httptest"
	"os"
	"path/filepath"
	"time"

	"github.com/bitcoin-sv/block-headers-service/config"
	"github.com/bitcoin-sv/block-headers-service/database"
	sqlrepository "github.com/bitcoin-sv/block-headers-service/database/repository"
	"github.com/bitcoin-sv/block-headers-service/database/sql"
	"github.com/bitcoin-sv/block-headers-service/internal/chaincfg"
	"github.com/bitcoin-sv/block-headers-service/internal/chaincfg/chainhash"
	"github.com/bitcoin-sv/block-headers-service/repository"
	"github.com/bitcoin-sv/block-headers-service/service"
	"github.com/bitcoin-sv/block-headers-service/transports/http/endpoints"
	httpserver "github.com/bitcoin-sv/block-headers-service/transports/http/server"
	peerpkg "github.com/bitcoin-sv/block-headers-service/transports/p2p/peer"
	"github.com/gin-gonic/gin"
	"github.com/jmoiron/sqlx"
	"github.com/rs/zerolog"
)

// Stack is the real production stack on one SQLite file.
type Stack struct {
	Cfg    *config.AppConfig
	DB     *sqlx.DB
	Repo   *repository.Repositories
	Svc    *service.Services
	Engine *gin.Engine
	Path   string
	Peers  map[*peerpkg.Peer]*peerpkg.SyncState // the map shared by NetworkService and the sync manager
	log    zerolog.Logger
	// decorate, when set, wraps the header repository before the services are built (fault injection / scheduling)
	Decorate func(repository.Headers) repository.Headers
}

// RepoRoot is the repository under test (the module this binary was compiled into).
func RepoRoot() string {
	if r := os.Getenv("VERIF_REPO"); r != "" {
		return r
	}
	return "/repo"
}

// NewConfig builds the default application configuration pointed at a SQLite file, regtest network, auth off.
func NewConfig(dbPath string) *config.AppConfig {
	cfg := config.GetDefaultAppConfig()
	cfg.Db.Engine = config.DBSQLite
	cfg.Db.SQLite.FilePath = dbPath
	cfg.Db.SchemaPath = filepath.Join(RepoRoot(), "database", "migrations")
	cfg.P2P.ChainNetType = config.RegTestNet
	cfg.HTTP.UseAuth = false
	cfg.HTTP.ProfilingEndpointsEnabled = false
	cfg.Logging.Level = "disabled"
	return cfg
}

// Open runs database.Init on the file (migrations of the working tree, genesis) and wires the services
// exactly as cmd/main.go does.
func (s *Stack) Open() error {
	s.log = zerolog.Nop()
	db, err := database.Init(s.Cfg, &s.log)
	if err != nil {
		return err
	}
	s.DB = db
	store := sql.NewHeadersDb(db, &s.log)
	var hdrs repository.Headers = sqlrepository.NewHeadersRepository(store)
	if s.Decorate != nil {
		hdrs = s.Decorate(hdrs)
	}
	s.Repo = &repository.Repositories{
		Headers:  hdrs,
		Tokens:   sqlrepository.NewTokensRepository(store),
		Webhooks: sqlrepository.NewWebhooksRepository(store),
	}
	peers := make(map[*peerpkg.Peer]*peerpkg.SyncState)
	s.Peers = peers
	s.Svc = service.NewServices(service.Dept{
		Repositories: s.Repo,
		Peers:        peers,
		AdminToken:   s.Cfg.HTTP.AuthToken,
		Logger:       &s.log,
		Config:       s.Cfg,
	})
	gin.SetMode(gin.ReleaseMode)
	gin.DefaultWriter = io.Discard
	gin.DefaultErrorWriter = io.Discard
	srv := httpserver.NewHTTPServer(s.Cfg.HTTP, &s.log)
	if os.Getenv("VERIF_METRICS") == "1" {
		// as cmd/main.go does with metrics.enabled: the gauges are process-wide, the endpoint is registered before the routes
		if _, on := metrics.Get(); !on {
			metrics.EnableMetrics()
		}
		srv.ApplyConfiguration(metrics.Register)
	}
	srv.ApplyConfiguration(endpoints.SetupRoutes(s.Svc, s.Cfg.HTTP))
	srv.ApplyConfiguration(func(e *gin.Engine) { s.Engine = e })
	gin.DefaultWriter = io.Discard
	gin.DefaultErrorWriter = io.Discard
	return nil
}

// Log returns the stack's (silent) logger.
func (s *Stack) Log() *zerolog.Logger { return &s.log }

// Close closes the database handle (the file stays).
func (s *Stack) Close() {
	if s.DB != nil {
		_ = s.DB.Close()
		s.DB = nil
	}
}

// Reset removes every header but genesis, all tokens and webhooks.
func (s *Stack) Reset() error {
	for _, q := range []string{"DELETE FROM headers WHERE height <> 0 OR previous_block <> '" + (chainhash.Hash{}).String() + "'", "DELETE FROM tokens", "DELETE FROM webhooks"} {
		if _, err := s.DB.Exec(q); err != nil {
			return err
		}
	}
	return nil
}

// HTTP performs one request against the gin engine.
func (s *Stack) HTTP(method, url string, body []byte, hdr map[string]string) (int, []byte) {
	var rd io.Reader
	if body != nil {
		rd = bytes.NewReader(body)
	}
	req := httptest.NewRequest(method, url, rd)
	if body != nil {
		req.Header.Set("Content-Type", "application/json")
	}
	for k, v := range hdr {
		req.Header.Set(k, v)
	}
	rec := httptest.NewRecorder()
	s.Engine.ServeHTTP(rec, req)
	return rec.Code, rec.Body.Bytes()
}

var _ = http.StatusOK

// Row is the harness-owned projection of one row of the headers table.
type Row struct {
	Hash      string    `db:"hash"`
	Height    int       `db:"height"`
	State     string    `db:"header_state"`
	Chainwork string    `db:"chainwork"`
	Cum       string    `db:"cumulated_work"`
	Prev      string    `db:"previous_block"`
	Version   int64     `db:"version"`
	Merkle    string    `db:"merkleroot"`
	Nonce     int64     `db:"nonce"`
	Bits      int64     `db:"bits"`
	Timestamp time.Time `db:"timestamp"`
}

// Rows reads the whole headers table with the harness's own query.
func (s *Stack) Rows() (map[string]Row, error) {
	var rs []Row
	if err := s.DB.Select(&rs, "SELECT hash, height, header_state, chainwork, cumulated_work, previous_block, version, merkleroot, nonce, bits, timestamp FROM headers"); err != nil {
		return nil, err
	}
	m := make(map[string]Row, len(rs))
	for _, r := range rs {
		if _, dup := m[r.Hash]; dup {
			return nil, fmt.Errorf("duplicate hash row %s", r.Hash)
		}
		m[r.Hash] = r
	}
	return m, nil
}

// Digest is an order-independent digest of the headers table (for "reads never write").
func (s *Stack) Digest() (string, error) {
	rs, err := s.Rows()
	if err != nil {
		return "", err
	}
	acc := make([]byte, 32)
	for _, r := range rs {
		h := sha256.Sum256([]byte(fmt.Sprintf("%s|%d|%s|%s|%s|%s|%d|%s|%d|%d|%d", r.Hash, r.Height, r.State, r.Chainwork, r.Cum, r.Prev, r.Version, r.Merkle, r.Nonce, r.Bits, r.Timestamp.Unix())))
		for i := range acc {
			acc[i] ^= h[i]
		}
	}
	return fmt.Sprintf("%d:%s", len(rs), hex.EncodeToString(acc)), nil
}

// ---- independent header arithmetic -------------------------------------------------------------

// RawHeader is the harness's own 80-byte header.
type RawHeader struct {
	Version int32
	Prev    [32]byte
	Merkle  [32]byte
	Time    uint32
	Bits    uint32
	Nonce   uint32
}

// Bytes serialises the header (little endian), independently of internal/wire.
func (h *RawHeader) Bytes() []byte {
	b := make([]byte, 80)
	binary.LittleEndian.PutUint32(b[0:], uint32(h.Version))
	copy(b[4:], h.Prev[:])
	copy(b[36:], h.Merkle[:])
	binary.LittleEndian.PutUint32(b[68:], h.Time)
	binary.LittleEndian.PutUint32(b[72:], h.Bits)
	binary.LittleEndian.PutUint32(b[76:], h.Nonce)
	return b
}

// Hash is double SHA-256 of the serialisation (internal byte order).
func (h *RawHeader) Hash() [32]byte {
	a := sha256.Sum256(h.Bytes())
	return sha256.Sum256(a[:])
}

// HexRev is the display form (byte-reversed hex) of a 32-byte hash.
func HexRev(b [32]byte) string {
	var r [32]byte
	for i := range b {
		r[i] = b[31-i]
	}
	return hex.EncodeToString(r[:])
}

// WorkUnit is the real work of abstract work class 1: 2^233.
var WorkUnit = new(big.Int).Lsh(big.NewInt(1), 233)

// CurUnit is the real work of abstract work class 1 in the behaviour being replayed (see Concretise: histories made of
// class-1 headers only are also run at other magnitudes of work).
var CurUnit = WorkUnit

// GenesisWork of regtest (bits 0x207fffff) = 2.
func GenesisWork(p *chaincfg.Params) *big.Int { return WorkOfBits(p.GenesisBlock.Header.Bits) }

// WorkOfBits is floor(2^256 / (target+1)) for a positive compact target.
func WorkOfBits(bits uint32) *big.Int {
	// computed here with math/big from the compact form, independently of domains.
	mant := int64(bits & 0x007fffff)
	exp := uint(bits >> 24)
	t := big.NewInt(mant)
	if exp <= 3 {
		t.Rsh(t, 8*(3-exp))
	} else {
		t.Lsh(t, 8*(exp-3))
	}
	t.Add(t, big.NewInt(1))
	return new(big.Int).Div(new(big.Int).Lsh(big.NewInt(1), 256), t)
}
