package chainh

import (
	"crypto/sha256"
	"encoding/json"
	"fmt"
	"io"
	"os"
	"sort"
)

func init() { extraOps["longreorg"] = opLongReorg }

// opLongReorg (C05 / C15 at scale): a reorganisation that relabels more than 500 headers on each side.  ChainSteps.tla
// makes every repository write ONE atomic step; the fault decorator realises that by failing / killing a write before it
// starts (validated against the specification on small histories).  Here the same write is instead started for real and
// one of its rows is made to fail by an SQLite trigger (row-level mode): the store after the fault, and after redelivery,
// must be exactly what it is when the whole write fails - any row that was written nevertheless is a partial write that an
// observer (a reader between the rows, a restart) would see.
func opLongReorg() error {
	seed := envInt("VERIF_SEED", 1)
	n := int(envInt("VERIF_LEN", 520))
	base := os.Getenv("VERIF_DB")
	rp, err := NewReplayer(base, seed)
	if err != nil {
		return err
	}
	var b Behaviour
	for i := 1; i <= n; i++ { // branch A: 1..n
		b.Hist = append(b.Hist, Step{Op: "add", ID: i, Parent: i - 1, Work: 1, Root: i})
	}
	for i := 1; i <= n+1; i++ { // branch B: n+1..2n+1 from genesis; its last header overtakes
		p := n + i - 1
		if i == 1 {
			p = 0
		}
		b.Hist = append(b.Hist, Step{Op: "add", ID: n + i, Parent: p, Work: 1, Root: n + i})
	}
	c := Concretise(&b, rp.Genesis, seed)
	if err := rp.S.Reset(); err != nil {
		return err
	}
	last := b.Hist[len(b.Hist)-1]
	for _, st := range b.Hist[:len(b.Hist)-1] {
		if _, err, crashed := SafeAdd(rp.S.Svc.Chains, c.Source(st.ID)); err != nil || crashed != "" {
			return fmt.Errorf("ingest %d: %v %s", st.ID, err, crashed)
		}
	}
	rp.S.Close()
	labels := func(r *Replayer) string {
		rows, _ := r.S.Rows()
		var keys []string
		for h, row := range rows {
			keys = append(keys, fmt.Sprintf("%d:%s", c.ByHash[h], row.State))
		}
		sort.Strings(keys)
		cnt := map[string]int{}
		for _, row := range rows {
			cnt[row.State]++
		}
		js, _ := json.Marshal(keys)
		return fmt.Sprintf("%v %x", cnt, sha(js))
	}
	run := func(tag, fault string, row bool) (afterFault, afterRedelivery, res string, err error) {
		p := fmt.Sprintf("%s.%s", base, tag)
		if err := copyFile(base, p); err != nil {
			return "", "", "", err
		}
		r2, err := NewReplayer(p, seed)
		if err != nil {
			return "", "", "", err
		}
		defer r2.S.Close()
		r2.Fault.Row = row
		r2.Fault.Arm(fault)
		_, aerr, crashed := SafeAdd(r2.S.Svc.Chains, c.Source(last.ID))
		res = fmt.Sprintf("err=%v crashed=%q", aerr != nil, crashed)
		afterFault = labels(r2)
		// restart (as after a kill) and redelivery of the header
		r2.S.Close()
		if err := r2.S.Open(); err != nil {
			return "", "", "", err
		}
		r2.Fault.Arm("none")
		if _, aerr, crashed := SafeAdd(r2.S.Svc.Chains, c.Source(last.ID)); crashed != "" {
			return "", "", "", fmt.Errorf("redelivery crashed: %s %v", crashed, aerr)
		}
		afterRedelivery = labels(r2)
		return
	}
	out := map[string]any{"rows_relabelled": 2 * n}
	mismatch := ""
	_, ref, _, err := run("ref", "none", false)
	if err != nil {
		return err
	}
	for _, f := range []string{"err@1", "err@2", "err@3", "kill@1", "kill@2", "kill@3"} {
		a1, a2, ares, err := run("call-"+f, f, false)
		if err != nil {
			return err
		}
		b1, b2, bres, err := run("row-"+f, f, true)
		if err != nil {
			return err
		}
		if mismatch == "" && (a1 != b1 || ares != bres) {
			mismatch = fmt.Sprintf("%s of a write relabelling %d rows: with the whole write failing the store is {%s} (%s), with one of its rows failing it is {%s} (%s): the write is not atomic", f, n, a1, ares, b1, bres)
		}
		if mismatch == "" && (a2 != ref || b2 != ref) {
			mismatch = fmt.Sprintf("%s then restart and redelivery: store {%s} / {%s}, uninterrupted run {%s}", f, a2, b2, ref)
		}
	}
	// the same on a short chain with the COMMIT of each write failing (a reader on another connection holds the table):
	// "a write that could not be committed has failed" - the three cases run side by side (the driver waits 5 s each time)
	if mismatch == "" && os.Getenv("VERIF_BUSY") != "0" {
		type br struct{ a1, a2, ares, b1, b2, bres string; err error }
		ch := make(chan br, 3)
		for _, k := range []string{"1", "2", "3"} {
			go func(k string) {
				var x br
				x.a1, x.a2, x.ares, x.err = run("callb-"+k, "err@"+k, false)
				if x.err == nil {
					x.b1, x.b2, x.bres, x.err = run("busy-"+k, "busy@"+k, false)
				}
				ch <- x
			}(k)
		}
		for i := 0; i < 3; i++ {
			x := <-ch
			if x.err != nil {
				return x.err
			}
			if mismatch == "" && (x.a1 != x.b1 || x.ares != x.bres) {
				mismatch = fmt.Sprintf("a write whose COMMIT fails: with the write failing outright the store is {%s} (%s), with its commit failing it is {%s} (%s)", x.a1, x.ares, x.b1, x.bres)
			}
			if mismatch == "" && (x.a2 != ref || x.b2 != ref) {
				mismatch = fmt.Sprintf("commit failure then restart and redelivery: store {%s} / {%s}, uninterrupted run {%s}", x.a2, x.b2, ref)
			}
		}
		out["commit_failures_injected"] = 3
	}
	out["mismatch"] = mismatch
	js, _ := json.Marshal(out)
	return os.WriteFile(os.Getenv("VERIF_OUT"), js, 0o644)
}

func sha(b []byte) []byte { h := sha256.Sum256(b); return h[:8] }

func copyFile(src, dst string) error {
	in, err := os.Open(src)
	if err != nil {
		return err
	}
	defer in.Close()
	out, err := os.Create(dst)
	if err != nil {
		return err
	}
	defer out.Close()
	_, err = io.Copy(out, in)
	return err
}
