package chainh

import (
	"bytes"
	"encoding/json"
	"fmt"
	"math/rand"
	"net/url"
	"os"
	"strings"
	"time"
)

func init() { extraOps["apierr"] = opAPIErr }

// C16: every row of the request-class table emitted by TLC from ApiErrors.tla is concretised several times by a small
// grammar and sent through the production gin engine (with gin.Recovery, as in production) over the real stack.

type apiRow struct {
	Route string   `json:"route"`
	P     []string `json:"p"`
	Exp   string   `json:"exp"`
}

func oneJSON(b []byte) bool {
	dec := json.NewDecoder(bytes.NewReader(b))
	var v any
	if err := dec.Decode(&v); err != nil {
		return false
	}
	var extra any
	return dec.Decode(&extra) != nil && !dec.More()
}

func opAPIErr() error {
	raw, err := os.ReadFile(os.Getenv("VERIF_IN"))
	if err != nil {
		return err
	}
	var tbl struct {
		Rows []apiRow `json:"rows"`
	}
	if err := json.Unmarshal(raw, &tbl); err != nil {
		return err
	}
	seed := envInt("VERIF_SEED", 1)
	inst := int(envInt("VERIF_INSTANCES", 3))
	rng := rand.New(rand.NewSource(seed))
	rp, err := NewReplayer(os.Getenv("VERIF_DB"), seed)
	if err != nil {
		return err
	}
	s := rp.S
	// store 0: a fork and an orphan chain: 0<-1<-2<-3 longest, 1<-4 stale, (unknown)<-5<-6 orphans
	b := Behaviour{Hist: []Step{{Op: "add", ID: 1, Parent: 0, Work: 1, Root: 1}, {Op: "add", ID: 2, Parent: 1, Work: 1, Root: 2}, {Op: "add", ID: 3, Parent: 2, Work: 1, Root: 3},
		{Op: "add", ID: 4, Parent: 1, Work: 1, Root: 4}, {Op: "add", ID: 5, Parent: 99, Work: 1, Root: 5}, {Op: "add", ID: 6, Parent: 5, Work: 1, Root: 6}}}
	longestIDs, staleIDs, orphanIDs := []int{1, 2, 3}, []int{4}, []int{5, 6}
	if envInt("VERIF_STORE", 0) == 1 {
		// store 1: the highest stored headers are NOT on the longest chain: 0<-1<-2 longest (heavy), 1<-3<-4<-5 stale (taller,
		// lighter), (unknown)<-6<-7<-8<-9<-10 orphans (pseudo-heights 1..5)
		b = Behaviour{Hist: []Step{{Op: "add", ID: 1, Parent: 0, Work: 4, Root: 1}, {Op: "add", ID: 2, Parent: 1, Work: 4, Root: 2},
			{Op: "add", ID: 3, Parent: 1, Work: 1, Root: 3}, {Op: "add", ID: 4, Parent: 3, Work: 1, Root: 4}, {Op: "add", ID: 5, Parent: 4, Work: 1, Root: 5},
			{Op: "add", ID: 6, Parent: 99, Work: 1, Root: 6}, {Op: "add", ID: 7, Parent: 6, Work: 1, Root: 7}, {Op: "add", ID: 8, Parent: 7, Work: 1, Root: 8},
			{Op: "add", ID: 9, Parent: 8, Work: 1, Root: 9}, {Op: "add", ID: 10, Parent: 9, Work: 1, Root: 10}}}
		longestIDs, staleIDs, orphanIDs = []int{1, 2}, []int{3, 4, 5}, []int{6, 7, 8, 9, 10}
	}
	c := Concretise(&b, rp.Genesis, seed)
	if err := s.Reset(); err != nil {
		return err
	}
	var buildFailure string
	for _, st := range b.Hist {
		if _, err, crashed := SafeAdd(s.Svc.Chains, c.Source(st.ID)); (err != nil || crashed != "") && buildFailure == "" {
			// the service refuses to ingest a header of the fixture: the requests below are still made against what is stored
			buildFailure = fmt.Sprintf("header %d: %v %s", st.ID, err, crashed)
		}
	}
	hashOf := func(class string) string {
		switch class {
		case "longest":
			return c.HashOf(longestIDs[rng.Intn(len(longestIDs))])
		case "stale":
			return c.HashOf(staleIDs[rng.Intn(len(staleIDs))])
		case "orphan":
			return c.HashOf(orphanIDs[rng.Intn(len(orphanIDs))])
		case "genesis":
			return c.HashOf(0)
		case "unknown":
			return HexRev(UnknownHash(seed, rng.Intn(1000)))
		case "malformed":
			return []string{"zz", "0x12", "abc", "%20", "..%2f..", strings.Repeat("g", 64), "-1", "null", "1e9", strings.Repeat("a", 63)}[rng.Intn(10)]
		case "overlong":
			return strings.Repeat("ab", 40+rng.Intn(2000))
		}
		return "?"
	}
	num := func(class string) (string, bool) {
		switch class {
		case "valid":
			return fmt.Sprint(1 + rng.Intn(3)), true
		case "zero":
			return "0", true
		case "missing":
			return "", false
		case "nonnumeric":
			return []string{"abc", "1x", "0x10", "١٢", "NaN", "true", "1,2", " 1"}[rng.Intn(8)], true
		case "negative":
			return fmt.Sprint(-1 - rng.Intn(1000)), true
		case "huge":
			return []string{"2147483647", "2147483648", "999999999", "4294967296"}[rng.Intn(4)], true
		case "float":
			return []string{"1.5", "1e3", "0.0"}[rng.Intn(3)], true
		case "overflow64":
			return []string{"9223372036854775808", "-9223372036854775809", strings.Repeat("9", 40)}[rng.Intn(3)], true
		case "empty":
			return "", true
		}
		return "?", true
	}
	q := func(pairs ...string) string {
		v := url.Values{}
		for i := 0; i+1 < len(pairs); i += 2 {
			v.Set(pairs[i], pairs[i+1])
		}
		if len(v) == 0 {
			return ""
		}
		return "?" + v.Encode()
	}
	rootStr := func(id int) string { return HexRev(RootBytes(c.seed, id)) }
	trunc := func(s string) string { return s[:len(s)/2+1] }
	whURL := "http://verif.invalid/registered"
	res := Result{DevUsed: map[string]int{}, Stats: map[string]int{}}
	var out []Mismatch
	if buildFailure != "" {
		out = append(out, Mismatch{Kind: "api", Exp: "the store of the scenario (forks, a taller lighter stale branch, orphan chains) is ingested through Chains.Add without an error", Got: buildFailure})
	}
	t0 := time.Now()
	var authStack *Stack
	for ri, row := range tbl.Rows {
		for k := 0; k < inst; k++ {
			method, path, body := "GET", "", []byte(nil)
			P := func(i int) string {
				if i < len(row.P) {
					return row.P[i]
				}
				return ""
			}
			parts := strings.SplitN(row.Route, " ", 2)
			method = parts[0]
			switch row.Route {
			case "GET header/:hash":
				path = "/chain/header/" + url.PathEscape(hashOf(P(0)))
			case "GET header/state/:hash":
				path = "/chain/header/state/" + url.PathEscape(hashOf(P(0)))
			case "GET header/byHeight":
				h, hp := num(P(0))
				n, np := num(P(1))
				args := []string{}
				if hp {
					args = append(args, "height", h)
				}
				if np {
					args = append(args, "count", n)
				}
				path = "/chain/header/byHeight" + q(args...)
			case "GET header/:a/:b/ancestor":
				path = "/chain/header/" + url.PathEscape(hashOf(P(0))) + "/" + url.PathEscape(hashOf(P(1))) + "/ancestor"
			case "POST header/commonAncestor":
				path = "/chain/header/commonAncestor"
				good, _ := json.Marshal([]string{c.HashOf(3), c.HashOf(4)})
				switch P(0) {
				case "valid":
					body = good
				case "single":
					body, _ = json.Marshal([]string{c.HashOf(2)})
				case "emptylist":
					body = []byte("[]")
				case "withgenesis":
					body, _ = json.Marshal([]string{c.HashOf(3), c.HashOf(0)})
				case "withunknown":
					body, _ = json.Marshal([]string{c.HashOf(3), hashOf("unknown")})
				case "withorphan":
					body, _ = json.Marshal([]string{c.HashOf(3), c.HashOf(6)})
				case "duplicates":
					body, _ = json.Marshal([]string{c.HashOf(3), c.HashOf(3), c.HashOf(3)})
				case "emptybody":
					body = []byte{}
				case "object":
					body = []byte(`{"hashes":["a"]}`)
				case "numbers":
					body = []byte(`[1,2,3]`)
				case "truncated":
					body = []byte(trunc(string(good)))
				case "nonjson":
					body = []byte("hello <xml/>")
				case "null":
					body = []byte("null")
				case "long":
					l := make([]string, 3000)
					for i := range l {
						l[i] = c.HashOf(1 + i%4)
					}
					body, _ = json.Marshal(l)
				}
			case "GET tip":
				path = "/chain/tip"
			case "GET tip/longest":
				path = "/chain/tip/longest"
			case "GET network/peer":
				path = "/network/peer"
			case "GET network/peer/count":
				path = "/network/peer/count"
			case "POST merkleroot/verify":
				path = "/chain/merkleroot/verify"
				item := func(r string, h any) map[string]any { return map[string]any{"merkleRoot": r, "blockHeight": h} }
				good, _ := json.Marshal([]any{item(rootStr(1), 1), item(rootStr(4), 2), item("nothing", 9)})
				switch P(0) {
				case "valid":
					body = good
				case "emptylist":
					body = []byte("[]")
				case "emptybody":
					body = []byte{}
				case "object":
					body = []byte(`{"merkleRoot":"a","blockHeight":1}`)
				case "wrongtypes":
					body = []byte(`[{"merkleRoot":5,"blockHeight":"x"}]`)
				case "negativeheight":
					body, _ = json.Marshal([]any{item(rootStr(1), -1-rng.Intn(5))})
				case "hugeheight":
					body, _ = json.Marshal([]any{item(rootStr(1), 2147483647)})
				case "truncated":
					body = []byte(trunc(string(good)))
				case "nonjson":
					body = []byte("merkleroot=1")
				case "null":
					body = []byte("null")
				case "long":
					l := make([]any, 2500)
					for i := range l {
						l[i] = item(fmt.Sprintf("%064x", i), i)
					}
					body, _ = json.Marshal(l)
				case "missingfields":
					body = []byte(`[{}]`)
				case "absurdlength":
					if k > 0 {
						continue // one instance is enough (3 MB of JSON)
					}
					l := make([]any, 35000+rng.Intn(3000))
					for i := range l {
						l[i] = item(fmt.Sprintf("%064x", i+1), i%7)
					}
					body, _ = json.Marshal(l)
				}
			case "GET merkleroot":
				n, np := num(P(0))
				args := []string{}
				if np {
					args = append(args, "batchSize", n)
				}
				switch P(1) {
				case "longestroot":
					args = append(args, "lastEvaluatedKey", rootStr(longestIDs[rng.Intn(len(longestIDs))]))
				case "staleroot":
					args = append(args, "lastEvaluatedKey", rootStr(append(append([]int{}, staleIDs...), orphanIDs...)[rng.Intn(len(staleIDs)+len(orphanIDs))]))
				case "unknown":
					args = append(args, "lastEvaluatedKey", rootStr(77))
				case "weird":
					args = append(args, "lastEvaluatedKey", []string{"'; DROP TABLE headers;--", "%", strings.Repeat("x", 5000), "\u0000"}[rng.Intn(4)])
				}
				path = "/chain/merkleroot" + q(args...)
			case "POST webhook":
				path = "/webhook"
				_, _ = s.DB.Exec("DELETE FROM webhooks")
				switch P(0) {
				case "valid":
					body = []byte(fmt.Sprintf(`{"url":"http://verif.invalid/new%d","requiredAuth":{"type":"bearer","token":"t"}}`, rng.Int()))
				case "nourl":
					body = []byte(`{"requiredAuth":{"type":"bearer","token":"t"}}`)
				case "emptybody":
					body = []byte{}
				case "array":
					body = []byte(`["http://x"]`)
				case "wrongtypes":
					body = []byte(`{"url":5,"requiredAuth":"x"}`)
				case "truncated":
					body = []byte(`{"url":"http://verif.invalid/t","requiredAu`)
				case "nonjson":
					body = []byte("url=http://x")
				case "null":
					body = []byte("null")
				case "longurl":
					body = []byte(`{"url":"http://verif.invalid/` + strings.Repeat("a", 300+rng.Intn(3000)) + `"}`)
				}
			case "GET webhook", "DELETE webhook":
				path = "/webhook"
				_, _ = s.DB.Exec("DELETE FROM webhooks")
				_, _ = s.HTTP("POST", "/api/v1/webhook", []byte(`{"url":"`+whURL+`"}`), nil)
				switch P(0) {
				case "registered":
					path += q("url", whURL)
				case "unregistered":
					path += q("url", "http://verif.invalid/nope")
				case "empty":
					path += "?url="
				case "weird":
					path += q("url", []string{"'", "%%", strings.Repeat("u", 4000), "\x01"}[rng.Intn(4)])
				}
			case "POST access":
				path = "/access"
			case "GET access":
				path = "/access"
			case "DELETE access/:token":
				path = "/access/" + url.PathEscape(map[string]string{"issued": "sometoken", "unknown": "nosuchtoken", "weird": []string{"%00", "a b", strings.Repeat("t", 3000)}[rng.Intn(3)]}[P(0)])
			default:
				if !strings.HasPrefix(row.Route, "AUTH ") {
					out = append(out, Mismatch{Beh: ri, Kind: "harness", Exp: "known route", Got: row.Route})
					continue
				}
			}
			var hdrs map[string]string
			target := s
			if strings.HasPrefix(row.Route, "AUTH ") {
				// the same routes on a stack with authentication switched on, with every kind of Authorization header but a valid one
				if authStack == nil {
					cfg := NewConfig(os.Getenv("VERIF_DB") + ".auth")
					cfg.HTTP.UseAuth = true
					cfg.HTTP.AuthToken = fmt.Sprintf("admin-%d-token", seed)
					authStack = &Stack{Cfg: cfg}
					if err := authStack.Open(); err != nil {
						return err
					}
					defer authStack.Close()
				}
				target = authStack
				f := strings.Fields(row.Route)
				method = f[1]
				path = map[string]string{"tip/longest": "/chain/tip/longest", "header/byHeight": "/chain/header/byHeight?height=0", "access": "/access",
					"merkleroot/verify": "/chain/merkleroot/verify", "webhook": "/webhook?url=http://x.invalid/h"}[f[2]]
				if method == "POST" {
					body = []byte("[]")
				}
				v := map[string]string{"schemeOnly": "Bearer", "schemeAndSpace": "Bearer ", "oneChar": []string{"x", "B", " "}[rng.Intn(3)],
					"shortWord": []string{"Basic", "Token", "abc123", "bearer", "Bearer"[:1+rng.Intn(5)]}[rng.Intn(5)], "lowercaseScheme": "bearer " + authStack.Cfg.HTTP.AuthToken,
					"basic": "Basic dXNlcjpwYXNz", "extraParts": "Bearer a b", "unknownToken": "Bearer no-such-token", "veryLong": "Bearer " + strings.Repeat("z", 20000),
					"binary": "Bearer \x01\x7f\xff"}[P(0)]
				hdrs = map[string]string{}
				if P(0) != "none" {
					hdrs["Authorization"] = v
				}
			}
			what := fmt.Sprintf("%s %v: %s %s body=%.80q", row.Route, row.P, method, path, body)
			if len(what) > 400 {
				what = what[:400]
			}
			// which request is being served, should the process not survive it
			_ = os.WriteFile(os.Getenv("VERIF_OUT")+".progress", []byte(what), 0o644)
			before, _ := target.Digest()
			code, rb := target.HTTP(method, "/api/v1"+path, body, hdrs)
			after, _ := target.Digest()
			res.Queries++
			res.Stats["exp:"+row.Exp]++
			fail := func(exp, got string) { out = append(out, Mismatch{Beh: ri, Step: k, Kind: "api", Exp: what + " -> " + exp, Got: got}) }
			switch {
			case code >= 500:
				fail("never 5xx ("+row.Exp+")", fmt.Sprintf("%d %.200s", code, rb))
			case row.Exp == "2xx" && (code < 200 || code > 299):
				fail("2xx", fmt.Sprintf("%d %.200s", code, rb))
			case row.Exp == "4xx" && (code < 400 || code > 499):
				fail("4xx", fmt.Sprintf("%d %.200s", code, rb))
			}
			if len(rb) > 0 && !oneJSON(rb) {
				fail("body is exactly one JSON document", fmt.Sprintf("%d %.200s", code, rb))
			}
			if code >= 400 && code <= 499 && !structured4xx(code, rb) {
				fail("4xx carries code and message", fmt.Sprintf("%d %.200s", code, rb))
			}
			if before != after {
				fail("headers table untouched", before+" -> "+after)
			}
		}
	}
	res.Behaviours = len(tbl.Rows)
	res.Steps = res.Queries
	res.Mismatches = out
	res.WallS = time.Since(t0).Seconds()
	res.Samples = []string{string(raw[:min(len(raw), 800)])}
	js, _ := json.Marshal(res)
	return os.WriteFile(os.Getenv("VERIF_OUT"), js, 0o644)
}
