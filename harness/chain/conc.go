package chainh

import (
	"sync/atomic"
	"net/http/httptest"
	"net/http"
	"io"
	"bufio"
	"encoding/json"
	"fmt"
	"math/big"
	"math/rand"
	"os"
	"reflect"
	"sync"
	"time"

	stdsql "database/sql"

	sqlrepository "github.com/bitcoin-sv/block-headers-service/database/repository"
	dbsql "github.com/bitcoin-sv/block-headers-service/database/sql"
	"github.com/bitcoin-sv/block-headers-service/domains"
	"github.com/bitcoin-sv/block-headers-service/internal/chaincfg/chainhash"
	"github.com/bitcoin-sv/block-headers-service/repository"
	"github.com/bitcoin-sv/block-headers-service/service"
	"github.com/jmoiron/sqlx"
)

func init() { extraOps["conc"] = opConc }

// C15: real goroutines (concurrent submitters and readers) over the real SQL stack.  Every call of repository.Headers
// goes through a gate: a goroutine may enter the repository only when the harness scheduler grants it, and the next
// grant is given only after that call has returned, so the recorded order IS the order of the database operations.
// Between repository calls goroutines run freely (this is where a mutex in the service shows: a goroutine waiting
// for it never reaches the gate).  The scheduler picks the next goroutine at random (seeded) among those at the gate.

type gate struct {
	mu      sync.Mutex
	pending map[int]chan struct{} // goroutine -> grant channel
	done    chan int
	ack     chan struct{} // the scheduler has logged what this call did: only then does the call return to its goroutine
	free    bool // free-running mode: no scheduling (race-detector runs)
}

type gidKey struct{}

var curG sync.Map // goroutine-local id is passed explicitly through schedRepo instances instead

// schedRepo is a per-goroutine view of the shared repository.
type schedRepo struct {
	repository.Headers
	g     int
	gt    *gate
	stmts bool // a reader scheduled at SQL-statement granularity (stmtgate.go)
	after func(g int, method string) // called while the goroutine still holds the grant
}

func (s *schedRepo) enter(method string) func() {
	if s.gt.free {
		return func() {}
	}
	ch := make(chan struct{})
	s.gt.mu.Lock()
	s.gt.pending[s.g] = ch
	s.gt.mu.Unlock()
	<-ch
	return func() {
		// whatever happens in between, the scheduler hears that this call is over
		defer func() {
			if x := recover(); x != nil {
				s.gt.done <- s.g
				<-s.gt.ack
				panic(x)
			}
		}()
		if s.after != nil {
			s.after(s.g, method)
		}
		s.gt.done <- s.g
		<-s.gt.ack
	}
}

func (s *schedRepo) AddHeaderToDatabase(h domains.BlockHeader) error {
	defer s.enter("insert")()
	return s.Headers.AddHeaderToDatabase(h)
}
func (s *schedRepo) UpdateState(hs []chainhash.Hash, st domains.HeaderState) error {
	defer s.enter("update")()
	return s.Headers.UpdateState(hs, st)
}
func (s *schedRepo) GetHeaderByHash(hash string) (*domains.BlockHeader, error) {
	defer s.enter("byhash")()
	return s.Headers.GetHeaderByHash(hash)
}
func (s *schedRepo) GetHeaderByHeight(h int32) (*domains.BlockHeader, error) {
	defer s.enter("byheight")()
	return s.Headers.GetHeaderByHeight(h)
}
func (s *schedRepo) GetTip() (*domains.BlockHeader, error) {
	defer s.enter("gettip")()
	return s.Headers.GetTip()
}
func (s *schedRepo) GetStaleChainHeadersBackFrom(hash string) ([]*domains.BlockHeader, error) {
	defer s.enter("staleback")()
	return s.Headers.GetStaleChainHeadersBackFrom(hash)
}
func (s *schedRepo) GetLongestChainHeadersFromHeight(h int32) ([]*domains.BlockHeader, error) {
	defer s.enter("longestfrom")()
	return s.Headers.GetLongestChainHeadersFromHeight(h)
}
func (s *schedRepo) GetAllTips() ([]*domains.BlockHeader, error) {
	defer s.enter("alltips")()
	return s.Headers.GetAllTips()
}

// dispatchRepo routes a call to the schedRepo of the calling goroutine.  The service layer holds ONE repository, so the
// calling goroutine is identified by a registration made before it starts working (goroutine id via a per-goroutine key).
type dispatchRepo struct {
	repository.Headers
	mu    sync.Mutex
	views map[int64]*schedRepo
}

func (d *dispatchRepo) view() repository.Headers {
	id := goid()
	d.mu.Lock()
	v := d.views[id]
	d.mu.Unlock()
	if v == nil {
		return d.Headers
	}
	return v
}
func (d *dispatchRepo) AddHeaderToDatabase(h domains.BlockHeader) error { return d.view().AddHeaderToDatabase(h) }
func (d *dispatchRepo) UpdateState(hs []chainhash.Hash, st domains.HeaderState) error {
	return d.view().UpdateState(hs, st)
}
func (d *dispatchRepo) GetHeaderByHash(hash string) (*domains.BlockHeader, error) {
	return d.view().GetHeaderByHash(hash)
}
func (d *dispatchRepo) GetHeaderByHeight(h int32) (*domains.BlockHeader, error) {
	return d.view().GetHeaderByHeight(h)
}
func (d *dispatchRepo) GetTip() (*domains.BlockHeader, error) { return d.view().GetTip() }
func (d *dispatchRepo) GetStaleChainHeadersBackFrom(hash string) ([]*domains.BlockHeader, error) {
	return d.view().GetStaleChainHeadersBackFrom(hash)
}
func (d *dispatchRepo) GetLongestChainHeadersFromHeight(h int32) ([]*domains.BlockHeader, error) {
	return d.view().GetLongestChainHeadersFromHeight(h)
}
func (d *dispatchRepo) GetAllTips() ([]*domains.BlockHeader, error) { return d.view().GetAllTips() }

var _ = reflect.TypeOf

var posts atomic.Int64
var hookURL string

func opConc() error {
	seed := envInt("VERIF_SEED", 1)
	nsc := int(envInt("VERIF_SCENARIOS", 50))
	free := os.Getenv("VERIF_FREE") == "1"
	disp := &dispatchRepo{views: map[int64]*schedRepo{}}
	s := &Stack{Cfg: NewConfig(os.Getenv("VERIF_DB"))}
	s.Decorate = func(h repository.Headers) repository.Headers { disp.Headers = h; return disp }
	if err := s.Open(); err != nil {
		return err
	}
	if free {
		// free-running (race detector) mode: notification delivery is part of the picture, wired as cmd/main.go does - the
		// webhooks service with a registered webhook (a local target), so that deliveries of neighbouring headers overlap
		target := httptest.NewServer(http.HandlerFunc(func(w http.ResponseWriter, r *http.Request) {
			_, _ = io.Copy(io.Discard, r.Body)
			posts.Add(1)
			time.Sleep(300 * time.Microsecond) // a target that takes a moment: deliveries of neighbouring headers overlap
			w.WriteHeader(200)
		}))
		defer target.Close()
		_, _ = s.DB.Exec("DELETE FROM webhooks")
		hookURL = target.URL + "/hook"
		s.Svc.Notifier.AddChannel(s.Svc.Webhooks)
	}
	// readers (scheduled mode): the header service over a second handle of the same file whose statements wait at the gate
	var reader *service.HeaderService
	if !free {
		rdb, err := stdsql.Open("sqlite3_verif_gate", fmt.Sprintf("file:%s?_foreign_keys=true&pooling=true", s.Cfg.Db.SQLite.FilePath))
		if err != nil {
			return err
		}
		defer rdb.Close()
		rstore := dbsql.NewHeadersDb(sqlx.NewDb(rdb, "sqlite3"), &s.log)
		reader = service.NewHeaderService(&repository.Repositories{Headers: sqlrepository.NewHeadersRepository(rstore)}, s.Cfg.P2P, &s.log)
		stmtEnter = func() func() {
			id := goid()
			disp.mu.Lock()
			v := disp.views[id]
			disp.mu.Unlock()
			if v == nil || !v.stmts {
				return nil
			}
			return v.enter("stmt")
		}
		defer func() { stmtEnter = nil }()
	}
	p := s.Cfg.P2P.GetNetParams()
	bh := p.GenesisBlock.Header
	graw := RawHeader{Version: bh.Version, Prev: bh.PrevBlock, Merkle: bh.MerkleRoot, Time: uint32(bh.Timestamp.Unix()), Bits: bh.Bits, Nonce: bh.Nonce}
	genesis := graw.Hash()
	gw := GenesisWork(p)
	f, err := os.Create(os.Getenv("VERIF_OUT"))
	if err != nil {
		return err
	}
	defer f.Close()
	w := bufio.NewWriter(f)
	defer w.Flush()
	var wmu sync.Mutex
	emit := func(v any) {
		js, _ := json.Marshal(v)
		wmu.Lock()
		fmt.Fprintln(w, string(js))
		wmu.Unlock()
	}
	stats := map[string]int{}
	for sci := 0; sci < nsc; sci++ {
		rng := rand.New(rand.NewSource(seed*104729 + int64(sci)))
		// ---- plan
		nbase := rng.Intn(4)
		ng := 2 + rng.Intn(2)
		var b Behaviour
		id := 1
		base := []int{}
		for i := 0; i < nbase; i++ {
			par := 0
			if len(base) > 0 && rng.Intn(4) > 0 {
				par = base[rng.Intn(len(base))]
			}
			b.Hist = append(b.Hist, Step{Op: "add", ID: id, Parent: par, Work: 1 + rng.Intn(2), Root: id})
			base = append(base, id)
			id++
		}
		perG := make([][]int, ng)
		conc := []int{}
		known := append([]int{0}, base...)
		for g := 0; g < ng; g++ {
			n := 1 + rng.Intn(2)
			for k := 0; k < n && len(conc) < 5; k++ {
				var par int
				switch x := rng.Intn(10); {
				case x < 5: // competing children of the same (latest) headers
					par = known[len(known)-1-rng.Intn(min(2, len(known)))]
				case x < 8:
					par = known[rng.Intn(len(known))]
				default: // a header another goroutine is adding concurrently
					if len(conc) > 0 {
						par = conc[rng.Intn(len(conc))]
					}
				}
				if k > 0 && rng.Intn(2) == 0 {
					par = perG[g][k-1]
				}
				b.Hist = append(b.Hist, Step{Op: "add", ID: id, Parent: par, Work: 1 + rng.Intn(2), Root: id})
				perG[g] = append(perG[g], id)
				conc = append(conc, id)
				id++
			}
		}
		nids := id
		c := Concretise(&b, genesis, seed+int64(sci))
		par := make([]int, nids)
		wk := make([]int, nids)
		par[0] = -1
		for _, st := range b.Hist {
			par[st.ID], wk[st.ID] = st.Parent, st.Work
		}
		if err := s.Reset(); err != nil {
			return err
		}
		if free {
			if _, err := s.Svc.Webhooks.CreateWebhook("bearer", "", "tok", hookURL); err != nil {
				return fmt.Errorf("HARNESS-ERROR webhook registration: %v", err)
			}
		}
		for _, i := range base {
			if _, err, crashed := SafeAdd(s.Svc.Chains, c.Source(i)); err != nil || crashed != "" {
				return fmt.Errorf("base add: %v %s", err, crashed)
			}
		}
		snapshot := func() (st []string, ht []int, cum []int) {
			rows, _ := s.Rows()
			st, ht, cum = make([]string, nids), make([]int, nids), make([]int, nids)
			for i := 0; i < nids; i++ {
				if row, ok := rows[c.HashOf(i)]; ok {
					st[i] = map[string]string{"LONGEST_CHAIN": "L", "STALE": "S", "ORPHAN": "O"}[row.State]
					ht[i] = row.Height
					v, okc := new(big.Int).SetString(row.Cum, 10)
					if !okc {
						cum[i] = -7 // what is stored is not a decimal integer: no specification value equals it
						continue
					}
					if st[i] != "O" {
						v.Sub(v, gw)
					}
					cum[i] = int(new(big.Int).Div(v, CurUnit).Int64())
				} else {
					st[i], ht[i], cum[i] = "-", -9, -9
				}
			}
			if len(rows) != nids-countDash(st) {
				st[0] = fmt.Sprintf("extra-rows:%d", len(rows))
			}
			return
		}
		emit(map[string]any{"ev": "scenario", "par": par, "work": wk, "base": base, "conc": conc, "groups": perG})
		// ---- run
		gt := &gate{pending: map[int]chan struct{}{}, done: make(chan int), ack: make(chan struct{}), free: free}
		var wg sync.WaitGroup
		finished := make(chan int, 16)
		live := 0
		crashes := make(chan string, 16)
		startG := func(g int, fn func()) {
			live++
			wg.Add(1)
			go func() {
				defer wg.Done()
				gid := goid()
				view := &schedRepo{Headers: disp.Headers, g: g, gt: gt, stmts: g >= 100}
				view.after = func(g int, m string) {
					if m == "insert" || m == "update" {
						st, ht, _ := snapshot()
						emit(map[string]any{"ev": "snap", "g": g, "m": m, "st": st, "ht": ht})
					}
				}
				disp.mu.Lock()
				disp.views[gid] = view
				disp.mu.Unlock()
				defer func() {
					if x := recover(); x != nil {
						crashes <- fmt.Sprint(x)
					}
					disp.mu.Lock()
					delete(disp.views, gid)
					disp.mu.Unlock()
					finished <- g
				}()
				fn()
			}()
		}
		for g := 0; g < ng; g++ {
			ids := perG[g]
			startG(g+1, func() {
				for _, i := range ids {
					h, err := s.Svc.Chains.Add(c.Source(i))
					_ = h
					_ = err
				}
			})
		}
		nread := 1 + rng.Intn(2)
		for r := 0; r < nread; r++ {
			rg := 100 + r
			cnt := 2 + rng.Intn(4)
			startG(rg, func() {
				for k := 0; k < cnt; k++ {
					// the read is scheduled statement by statement (one statement on the unchanged tree); the table is
					// snapshotted under each grant
					var tip *domains.BlockHeader
					if free {
						tip = s.Svc.Headers.GetTip()
					} else {
						tip = reader.GetTip()
					}
					if !free {
						// what the service ANSWERED (not what the table held under the grant): it must be a tip this very call saw
						tid := -1
						if tip != nil {
							if id, ok := c.ByHash[tip.Hash.String()]; ok {
								tid = id
							}
						}
						emit(map[string]any{"ev": "readret", "g": rg, "tip": tid})
					}
					if free {
						// free-running (race detector) mode: the HTTP read paths as well
						s.HTTP("GET", "/api/v1/chain/tip", nil, nil)
						s.HTTP("GET", "/api/v1/chain/tip/longest", nil, nil)
						s.HTTP("GET", "/api/v1/network/peer", nil, nil)
						s.HTTP("GET", "/api/v1/network/peer/count", nil, nil)
						s.HTTP("GET", "/api/v1/chain/header/byHeight?height=0&count=5", nil, nil)
					}
				}
			})
		}
		// readers log inside the grant: install via after-hook on their views (method gettip issued by a reader goroutine)
		// -> done below by checking g >= 100 in the scheduler loop right after the grant returns.
		if !free {
			for live > 0 {
				// collect finished goroutines
				select {
				case <-finished:
					live--
					continue
				default:
				}
				gt.mu.Lock()
				np := len(gt.pending)
				gt.mu.Unlock()
				if np == 0 {
					select {
					case <-finished:
						live--
					case <-time.After(50 * time.Microsecond):
					}
					continue
				}
				// give the others a moment to arrive at the gate so that there is a choice
				if np < live {
					time.Sleep(time.Duration(100+rng.Intn(300)) * time.Microsecond)
				}
				gt.mu.Lock()
				keys := make([]int, 0, len(gt.pending))
				for k := range gt.pending {
					keys = append(keys, k)
				}
				sortInts(keys)
				pick := keys[rng.Intn(len(keys))]
				ch := gt.pending[pick]
				delete(gt.pending, pick)
				gt.mu.Unlock()
				if pick >= 100 {
					// reader: its GetTip executes now; record what it will see by reading the table under the same grant
					st, ht, _ := snapshot()
					ch <- struct{}{}
					<-gt.done
					tipRow, _ := disp.Headers.GetTip()
					tipID := -1
					if tipRow != nil {
						if id, ok := c.ByHash[tipRow.Hash.String()]; ok {
							tipID = id
						}
					}
					emit(map[string]any{"ev": "read", "g": pick, "tip": tipID, "st": st, "ht": ht})
					stats["reads"]++
					gt.ack <- struct{}{}
				} else {
					ch <- struct{}{}
					<-gt.done
					stats["calls"]++
					gt.ack <- struct{}{}
				}
			}
		}
		wg.Wait()
		select {
		case cr := <-crashes:
			emit(map[string]any{"ev": "crash", "what": cr})
		default:
		}
		st, ht, cum := snapshot()
		// after everything has finished, what the service and the HTTP API report as tip
		svcTip, httpTip := -1, -1
		if t := s.Svc.Headers.GetTip(); t != nil {
			if id, ok := c.ByHash[t.Hash.String()]; ok {
				svcTip = id
			}
		}
		if code, body := s.HTTP("GET", "/api/v1/chain/tip/longest", nil, nil); code == 200 {
			var tj struct {
				Header struct {
					Hash string `json:"hash"`
				} `json:"header"`
			}
			if json.Unmarshal(body, &tj) == nil {
				if id, ok := c.ByHash[tj.Header.Hash]; ok {
					httpTip = id
				}
			}
		}
		emit(map[string]any{"ev": "final", "par": par, "work": wk, "base": base, "conc": conc, "st": st, "ht": ht, "cum": cum, "svctip": svcTip, "httptip": httpTip})
		stats["scenarios"]++
		stats["concurrent-headers"] += len(conc)
	}
	stats["webhook-posts"] = int(posts.Load())
	js, _ := json.Marshal(stats)
	return os.WriteFile(os.Getenv("VERIF_OUT")+".stats", js, 0o644)
}

func countDash(st []string) int {
	n := 0
	for _, s := range st {
		if s == "-" {
			n++
		}
	}
	return n
}

func sortInts(a []int) {
	for i := 1; i < len(a); i++ {
		for j := i; j > 0 && a[j] < a[j-1]; j-- {
			a[j], a[j-1] = a[j-1], a[j]
		}
	}
}
