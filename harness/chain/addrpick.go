package chainh

import (
	"encoding/json"
	"fmt"
	"net"
	"os"
	"strconv"
	"time"

	"github.com/bitcoin-sv/block-headers-service/config"
	"github.com/bitcoin-sv/block-headers-service/internal/chaincfg"
	"github.com/bitcoin-sv/block-headers-service/internal/wire"
	"github.com/bitcoin-sv/block-headers-service/transports/p2p/addrmgr"
	"github.com/bitcoin-sv/block-headers-service/transports/p2p/p2putil"
	"github.com/rs/zerolog"
)

func init() { extraOps["addrpick"] = opAddrPick }

// AddrPick.tla, direction A: every row of the table (a sequence of draws) is played to the real p2putil.NewAddressFunc;
// the draws are real addrmgr.KnownAddress values taken from real address managers holding one address each (attempted
// just now or never, default or other port), the group counter says 1 for the groups the row declares connected.

type apClass struct {
	Grp     bool `json:"grp"`
	Recent  bool `json:"recent"`
	DefPort bool `json:"defport"`
}

type apRow struct {
	F   apClass `json:"f"`
	K   int     `json:"k"`
	C   apClass `json:"c"`
	J   int     `json:"j"`
	Out struct {
		Ok    bool   `json:"ok"`
		Draws int    `json:"draws"`
		Who   string `json:"who"`
	} `json:"out"`
}

func opAddrPick() error {
	raw, err := os.ReadFile(os.Getenv("VERIF_IN"))
	if err != nil {
		return err
	}
	var tbl struct {
		Rows []apRow `json:"rows"`
	}
	if err := json.Unmarshal(raw, &tbl); err != nil {
		return err
	}
	params := chaincfg.RegressionNetParams
	config.ActiveNetParams = &params
	defPort, _ := strconv.Atoi(params.DefaultPort)
	log := zerolog.Nop()
	lookup := func(string) ([]net.IP, error) { return nil, fmt.Errorf("verif: no dns") }
	// one address manager per candidate: GetAddress of a book holding one address returns that address
	type cand struct {
		ka  *addrmgr.KnownAddress
		key string
	}
	cache := map[string]cand{}
	mk := func(who string, c apClass) (cand, error) {
		id := fmt.Sprintf("%s/%v/%v", who, c.Recent, c.DefPort)
		if x, ok := cache[id]; ok {
			return x, nil
		}
		ip := net.ParseIP(map[string]string{"filler": "44.1.0.1", "special": "44.2.0.1"}[who])
		port := defPort
		if !c.DefPort {
			port = defPort + 1
		}
		na := wire.NewNetAddressIPPort(ip, uint16(port), wire.SFNodeNetwork)
		am := addrmgr.New(lookup, &log)
		am.AddAddresses([]*wire.NetAddress{na}, wire.NewNetAddressIPPort(net.ParseIP("44.9.0.1"), uint16(defPort), 0))
		if c.Recent {
			am.Attempt(na)
		}
		var ka *addrmgr.KnownAddress
		for i := 0; i < 1000 && ka == nil; i++ {
			ka = am.GetAddress()
		}
		if ka == nil {
			return cand{}, fmt.Errorf("HARNESS-ERROR: the address manager does not hand out its only address (%s)", id)
		}
		if c.Recent != (time.Since(ka.LastAttempt()) < 10*time.Minute) {
			return cand{}, fmt.Errorf("HARNESS-ERROR: candidate %s has LastAttempt %v", id, ka.LastAttempt())
		}
		x := cand{ka: ka, key: addrmgr.GroupKey(na)}
		cache[id] = x
		return x, nil
	}
	res := Result{DevUsed: map[string]int{}, Stats: map[string]int{}}
	var out []Mismatch
	t0 := time.Now()
	for ri, row := range tbl.Rows {
		f, err := mk("filler", row.F)
		if err != nil {
			return err
		}
		sp, err := mk("special", row.C)
		if err != nil {
			return err
		}
		draws := 0
		get := func() *addrmgr.KnownAddress {
			t := draws
			draws++
			if row.J >= 0 && t >= row.J {
				return nil
			}
			if t == row.K {
				return sp.ka
			}
			return f.ka
		}
		groups := func(key string) int {
			if (key == f.key && row.F.Grp) || (key == sp.key && row.C.Grp) {
				return 1
			}
			return 0
		}
		addr, err := p2putil.NewAddressFunc(get, groups, lookup)()
		res.Queries++
		res.Stats[fmt.Sprintf("ok:%v", row.Out.Ok)]++
		what := fmt.Sprintf("draws: filler%+v everywhere, special%+v at %d, book dry from %d", row.F, row.C, row.K, row.J)
		got := "error"
		if err == nil && addr != nil {
			got = "filler"
			if ta, ok := addr.(*net.TCPAddr); ok && ta.IP.Equal(net.ParseIP("44.2.0.1")) {
				got = "special"
			}
		}
		exp := "error"
		if row.Out.Ok {
			exp = row.Out.Who
		}
		if got != exp || draws != row.Out.Draws {
			out = append(out, Mismatch{Beh: ri, Kind: "addrpick", Exp: fmt.Sprintf("%s -> %s after %d draws", what, exp, row.Out.Draws), Got: fmt.Sprintf("%s after %d draws (%v)", got, draws, err)})
			if len(out) > 50 {
				break
			}
		}
	}
	res.Behaviours, res.Steps, res.Mismatches, res.WallS = len(tbl.Rows), len(tbl.Rows), out, time.Since(t0).Seconds()
	js, _ := json.Marshal(res)
	return os.WriteFile(os.Getenv("VERIF_OUT"), js, 0o644)
}
