package chainh

import (
	"bufio"
	stdsql "database/sql"
	"encoding/json"
	"fmt"
	"os"
	"path/filepath"
	"time"

	"github.com/bitcoin-sv/block-headers-service/database"
	sqlrepository "github.com/bitcoin-sv/block-headers-service/database/repository"
	dbsql "github.com/bitcoin-sv/block-headers-service/database/sql"
	"github.com/bitcoin-sv/block-headers-service/domains"
	"github.com/bitcoin-sv/block-headers-service/internal/chaincfg/chainhash"
	"github.com/golang-migrate/migrate/v4"
	msqlite "github.com/golang-migrate/migrate/v4/database/sqlite3"
	_ "github.com/golang-migrate/migrate/v4/source/file"
	"github.com/rs/zerolog"
)

func init() { extraOps["startup"] = opStartup }

// Startup.tla, direction A.  The database file is brought to the modelled disk state with the working tree's own
// migration files (golang-migrate, as database.Init uses it), filled under THAT version's schema, and the real
// database.Init is run on it.  Killed starts are not run: the model says what they leave on disk (schema version, dirty
// flag, files applied) and the harness puts the file into that state.

type suObs struct {
	Res     string `json:"res"`
	Ver     int    `json:"ver"`
	Dirty   bool   `json:"dirty"`
	Applied int    `json:"applied"`
	Gen     bool   `json:"gen"`
}

type suBeh struct {
	Init struct {
		Ver  int      `json:"ver"`
		Gen  bool     `json:"gen"`
		Hdrs []string `json:"hdrs"`
		IDs  []int    `json:"ids"`
		Tok  bool     `json:"tok"`
		Hook string   `json:"hook"`
	} `json:"init"`
	Hist []suObs `json:"hist"`
}

type suHdr struct {
	hash, merkle, prev, chainwork, cum string
	height, version                    int
	nonce, bits                        uint32
	ts                                 time.Time
}

const suToken = "verif-startup-token"
const suHookURL = "http://verif.invalid/startup-hook"

func suHeader(id int, genesis string) suHdr {
	h := func(i int) string {
		if i == 0 {
			return genesis
		}
		return fmt.Sprintf("%064x", 0xabc000+i)
	}
	return suHdr{hash: h(id), merkle: fmt.Sprintf("%064x", 0xdef000+id), prev: h(id - 1), chainwork: "2", cum: fmt.Sprint(2 * (id + 1)), height: id,
		version: 536870912 + id, nonce: uint32(4000000000 + id), bits: 0x207fffff, ts: time.Unix(1600000000+600*int64(id), 0).UTC()}
}

// migrateTo applies the working tree's migration files up to version v (no-op when the file is already there or beyond).
func migrateTo(dbPath, schema string, v int) error {
	db, err := stdsql.Open("sqlite3", "file:"+dbPath+"?_foreign_keys=true")
	if err != nil {
		return err
	}
	drv, err := msqlite.WithInstance(db, &msqlite.Config{})
	if err != nil {
		db.Close()
		return err
	}
	m, err := migrate.NewWithDatabaseInstance("file://"+schema, "sqlite3", drv)
	if err != nil {
		db.Close()
		return err
	}
	defer m.Close()
	if v == 0 {
		return nil
	}
	if err := m.Migrate(uint(v)); err != nil && err != migrate.ErrNoChange {
		return err
	}
	return nil
}

func opStartup() error {
	in, err := os.Open(os.Getenv("VERIF_IN"))
	if err != nil {
		return err
	}
	defer in.Close()
	last := int(envInt("VERIF_LAST", 7))
	dir := filepath.Dir(os.Getenv("VERIF_DB"))
	log := zerolog.Nop()
	res := Result{DevUsed: map[string]int{}, Stats: map[string]int{}}
	var out []Mismatch
	t0 := time.Now()
	sc := bufio.NewScanner(in)
	sc.Buffer(make([]byte, 1<<20), 1<<26)
	idx := -1
	for sc.Scan() {
		idx++
		var b suBeh
		if err := json.Unmarshal(sc.Bytes(), &b); err != nil {
			return err
		}
		dbPath := filepath.Join(dir, fmt.Sprintf("su-%d.db", idx))
		os.Remove(dbPath)
		cfg := NewConfig(dbPath)
		p := cfg.P2P.GetNetParams()
		gh := p.GenesisBlock.Header
		genesis := gh.BlockHash().String()
		miss := func(k int, kind, exp, got string) {
			out = append(out, Mismatch{Beh: idx, Step: k, Kind: kind, Exp: exp, Got: got})
		}
		// ---- the database a previous release left behind
		if err := migrateTo(dbPath, cfg.Db.SchemaPath, b.Init.Ver); err != nil {
			return fmt.Errorf("HARNESS-ERROR migrate to %d: %v", b.Init.Ver, err)
		}
		raw, err := stdsql.Open("sqlite3", "file:"+dbPath+"?_foreign_keys=true")
		if err != nil {
			return err
		}
		applied := b.Init.Ver
		prevCol, cumCol := "previousblock", "cumulatedWork"
		if applied >= 7 {
			prevCol, cumCol = "previous_block", "cumulated_work"
		}
		insHdr := func(h suHdr, st string) error {
			if applied < 2 {
				_, err := raw.Exec("INSERT INTO headers(hash,height,version,merkleroot,nonce,bits,chainwork,"+prevCol+",timestamp,isorphan,isconfirmed,"+cumCol+") VALUES(?,?,?,?,?,?,?,?,?,?,?,?)",
					h.hash, h.height, h.version, h.merkle, h.nonce, h.bits, h.chainwork, h.prev, h.ts, st == "O", h.height%2 == 0, h.cum)
				return err
			}
			state := map[string]string{"L": "LONGEST_CHAIN", "S": "STALE", "O": "ORPHAN"}[st]
			_, err := raw.Exec("INSERT INTO headers(hash,height,version,merkleroot,nonce,bits,chainwork,"+prevCol+",timestamp,header_state,"+cumCol+") VALUES(?,?,?,?,?,?,?,?,?,?,?)",
				h.hash, h.height, h.version, h.merkle, h.nonce, h.bits, h.chainwork, h.prev, h.ts, state, h.cum)
			return err
		}
		want := map[string]string{} // hash -> state label
		hdrOf := map[string]suHdr{}
		if b.Init.Gen {
			g := suHdr{hash: genesis, merkle: gh.MerkleRoot.String(), prev: chainhash.Hash{}.String(), chainwork: domains.CalculateWork(gh.Bits).BigInt().String(),
				cum: domains.CalculateWork(gh.Bits).BigInt().String(), height: 0, version: 1, nonce: gh.Nonce, bits: gh.Bits, ts: time.Unix(gh.Timestamp.Unix(), 0)}
			if err := insHdr(g, "L"); err != nil {
				return fmt.Errorf("HARNESS-ERROR genesis insert at schema %d: %v", applied, err)
			}
		}
		for i, id := range b.Init.IDs {
			if st := b.Init.Hdrs[i]; st != "-" {
				h := suHeader(id, genesis)
				if err := insHdr(h, st); err != nil {
					return fmt.Errorf("HARNESS-ERROR header insert at schema %d: %v", applied, err)
				}
				want[h.hash] = map[string]string{"L": "LONGEST_CHAIN", "S": "STALE", "O": "ORPHAN"}[st]
				hdrOf[h.hash] = h
			}
		}
		tokAt := time.Unix(1650000000, 0).UTC()
		if b.Init.Tok {
			if _, err := raw.Exec("INSERT INTO tokens(token, created_at) VALUES(?,?)", suToken, tokAt); err != nil {
				return fmt.Errorf("HARNESS-ERROR token insert at schema %d: %v", applied, err)
			}
		}
		hookErrs, hookActive, hookStatus := 0, true, "200"
		if b.Init.Hook == "inactive" {
			hookErrs, hookActive, hookStatus = 10, false, "500"
		}
		if b.Init.Hook != "-" {
			cols := "url,tokenHeader,token,createdAt,lastEmitStatus,lastEmitTimestamp,errorsCount,active"
			if applied >= 7 {
				cols = "url,token_header,token,created_at,last_emit_status,last_emit_timestamp,errors_count,is_active"
			}
			if _, err := raw.Exec("INSERT INTO webhooks("+cols+") VALUES(?,?,?,?,?,?,?,?)", suHookURL, "X-Verif", "hook-secret", tokAt, hookStatus, tokAt, hookErrs, hookActive); err != nil {
				return fmt.Errorf("HARNESS-ERROR webhook insert at schema %d: %v", applied, err)
			}
		}
		raw.Close()
		nHdr := len(want)
		if b.Init.Gen {
			nHdr++
		}
		setVersion := func(ver int, dirty bool) error {
			r2, err := stdsql.Open("sqlite3", "file:"+dbPath)
			if err != nil {
				return err
			}
			defer r2.Close()
			if _, err := r2.Exec("CREATE TABLE IF NOT EXISTS schema_migrations (version uint64,dirty bool)"); err != nil {
				return err
			}
			if _, err := r2.Exec("DELETE FROM schema_migrations"); err != nil {
				return err
			}
			_, err = r2.Exec("INSERT INTO schema_migrations (version, dirty) VALUES (?, ?)", ver, dirty)
			return err
		}
		count := func(table string) int {
			r2, err := stdsql.Open("sqlite3", "file:"+dbPath)
			if err != nil {
				return -1
			}
			defer r2.Close()
			n := -1
			_ = r2.QueryRow("SELECT COUNT(*) FROM " + table).Scan(&n)
			return n
		}
		// ---- the starts
		for k, o := range b.Hist {
			res.Stats["steps"]++
			res.Stats["start:"+o.Res]++
			switch o.Res {
			case "killed":
				if o.Applied > applied {
					if err := migrateTo(dbPath, cfg.Db.SchemaPath, o.Applied); err != nil {
						return fmt.Errorf("HARNESS-ERROR migrate to %d: %v", o.Applied, err)
					}
					applied = o.Applied
				}
				if o.Ver > 0 {
					if err := setVersion(o.Ver, o.Dirty); err != nil {
						return fmt.Errorf("HARNESS-ERROR set version: %v", err)
					}
				}
				if o.Dirty {
					res.Stats["killed-dirty"]++
				}
			case "refused":
				db, err := database.Init(cfg, &log)
				if err == nil {
					_ = db.Close()
					miss(k, "startup", fmt.Sprintf("a database left dirty at schema version %d is refused", o.Ver), "started")
				}
				if applied >= 1 {
					if n := count("headers"); n != nHdr {
						miss(k, "startup", fmt.Sprintf("the refused start leaves the %d stored headers alone", nHdr), fmt.Sprintf("%d headers", n))
					}
				}
			case "started":
				db, err := database.Init(cfg, &log)
				if err != nil {
					miss(k, "startup", fmt.Sprintf("start on a clean database at schema version %d succeeds", o.Ver), err.Error())
					break
				}
				applied = last
				store := dbsql.NewHeadersDb(db, &log)
				hrepo := sqlrepository.NewHeadersRepository(store)
				trepo := sqlrepository.NewTokensRepository(store)
				wrepo := sqlrepository.NewWebhooksRepository(store)
				var ver int
				var dirty bool
				if err := db.QueryRow("SELECT version, dirty FROM schema_migrations").Scan(&ver, &dirty); err != nil || ver != last || dirty {
					miss(k, "startup", fmt.Sprintf("schema version %d, clean", last), fmt.Sprintf("version %d dirty=%v err=%v", ver, dirty, err))
				}
				// genesis
				if g, err := hrepo.GetHeaderByHash(genesis); err != nil || g == nil {
					miss(k, "startup", "after a completed start the genesis header is stored", fmt.Sprintf("absent (%v)", err))
				} else if g.Height != 0 || g.State != domains.LongestChain {
					miss(k, "startup", "genesis at height 0 on the longest chain", fmt.Sprintf("height %d %s", g.Height, g.State))
				}
				wantN := len(want) + 1
				if n, err := hrepo.GetHeadersCount(); err != nil || n != wantN {
					miss(k, "startup", fmt.Sprintf("%d headers stored (what the database held, and genesis)", wantN), fmt.Sprintf("%d (%v)", n, err))
				}
				for hash, st := range want {
					h := hdrOf[hash]
					got, err := hrepo.GetHeaderByHash(hash)
					if err != nil || got == nil {
						miss(k, "startup", fmt.Sprintf("header at height %d written under schema version %d is still stored", h.height, b.Init.Ver), fmt.Sprintf("absent (%v)", err))
						continue
					}
					g := fmt.Sprintf("height=%d version=%d merkle=%s nonce=%d bits=%d state=%s prev=%s time=%d work=%s cum=%s", got.Height, got.Version, got.MerkleRoot.String(), got.Nonce, got.Bits,
						got.State, got.PreviousBlock.String(), got.Timestamp.Unix(), got.Chainwork.String(), got.CumulatedWork.String())
					e := fmt.Sprintf("height=%d version=%d merkle=%s nonce=%d bits=%d state=%s prev=%s time=%d work=%s cum=%s", h.height, h.version, h.merkle, h.nonce, h.bits,
						st, h.prev, h.ts.Unix(), h.chainwork, h.cum)
					if g != e {
						miss(k, "startup", e, g)
					}
				}
				tk, terr := trepo.GetTokenByValue(suToken)
				if b.Init.Tok && (terr != nil || tk == nil || tk.Token != suToken || tk.CreatedAt.Unix() != tokAt.Unix()) {
					miss(k, "startup-token", "the stored token is still there", fmt.Sprintf("%+v (%v)", tk, terr))
				}
				if !b.Init.Tok && terr == nil && tk != nil {
					miss(k, "startup-token", "no token", fmt.Sprintf("%+v", tk))
				}
				whs, werr := wrepo.GetAllWebhooks()
				if b.Init.Hook == "-" {
					if werr != nil || len(whs) != 0 {
						miss(k, "startup-webhook", "no webhook", fmt.Sprintf("%d (%v)", len(whs), werr))
					}
				} else if werr != nil || len(whs) != 1 {
					miss(k, "startup-webhook", "the stored webhook is still there", fmt.Sprintf("%d webhooks (%v)", len(whs), werr))
				} else {
					w := whs[0]
					g := fmt.Sprintf("url=%s header=%s token=%s status=%s errors=%d active=%v created=%d", w.URL, w.TokenHeader, w.Token, w.LastEmitStatus, w.ErrorsCount, w.Active, w.CreatedAt.Unix())
					e := fmt.Sprintf("url=%s header=%s token=%s status=%s errors=%d active=%v created=%d", suHookURL, "X-Verif", "hook-secret", hookStatus, hookErrs, hookActive, tokAt.Unix())
					if g != e {
						miss(k, "startup-webhook", e, g)
					}
				}
				nHdr = wantN
				_ = db.Close()
			}
			if len(out) > 100 {
				break
			}
		}
		if idx < 2 {
			res.Samples = append(res.Samples, sc.Text()[:min(len(sc.Text()), 2000)])
		}
		os.Remove(dbPath)
		os.Remove(dbPath + "-journal")
		if len(out) > 100 {
			break
		}
	}
	res.Behaviours, res.Steps, res.Mismatches, res.WallS = idx+1, res.Stats["steps"], out, time.Since(t0).Seconds()
	js, _ := json.Marshal(res)
	return os.WriteFile(os.Getenv("VERIF_OUT"), js, 0o644)
}
