package chainh

import (
	"bytes"
	"runtime"
	"strconv"
)

// goid returns the id of the calling goroutine (parsed from the stack header; used only to route repository calls
// of harness-started goroutines to their scheduling view).
func goid() int64 {
	var buf [64]byte
	n := runtime.Stack(buf[:], false)
	b := buf[:n]
	b = bytes.TrimPrefix(b, []byte("goroutine "))
	if i := bytes.IndexByte(b, ' '); i > 0 {
		id, _ := strconv.ParseInt(string(b[:i]), 10, 64)
		return id
	}
	return -1
}
