package chainh

import (
	"bytes"
	"encoding/json"
	"fmt"
	"sort"
	"strings"
	"sync"

	"github.com/bitcoin-sv/block-headers-service/domains"
	"github.com/bitcoin-sv/block-headers-service/internal/chaincfg/chainhash"
)

type errJSON struct {
	Code    string `json:"code"`
	Message string `json:"message"`
}

func structured4xx(code int, body []byte) bool {
	if code < 400 || code > 499 {
		return false
	}
	var e errJSON
	return json.Unmarshal(body, &e) == nil && e.Code != "" && e.Message != ""
}

func idsToStr(ids []int) string {
	s := make([]string, len(ids))
	for i, v := range ids {
		s[i] = fmt.Sprint(v)
	}
	return "[" + strings.Join(s, ",") + "]"
}

func (r *Replayer) rootStr(c *Concrete, class int) string {
	switch class {
	case 0:
		return r.Params.GenesisBlock.Header.MerkleRoot.String()
	case 999:
		return HexRev(UnknownHash(c.seed, 999))
	}
	return HexRev(RootBytes(c.seed, class))
}

func (r *Replayer) rootClass(c *Concrete, s string, classes []int) int {
	for _, k := range classes {
		if r.rootStr(c, k) == s {
			return k
		}
	}
	return -2
}

func (r *Replayer) hashesToIDs(c *Concrete, hs []string) []int {
	out := make([]int, len(hs))
	for i, h := range hs {
		if id, ok := c.ByHash[h]; ok {
			out[i] = id
		} else {
			out[i] = -77
		}
	}
	return out
}

func sortedCopy(a []int) []int {
	b := append([]int(nil), a...)
	sort.Ints(b)
	return b
}

func eqInts(a, b []int) bool {
	if len(a) != len(b) {
		return false
	}
	for i := range a {
		if a[i] != b[i] {
			return false
		}
	}
	return true
}

func subset(a, b []int) bool {
	m := map[int]bool{}
	for _, x := range b {
		m[x] = true
	}
	for _, x := range a {
		if !m[x] {
			return false
		}
	}
	return true
}

// runQuery executes one expected-answer record against the HTTP API / services and records a mismatch.
func (r *Replayer) runQuery(k int, c *Concrete, q *Query) {
	tag := "q-" + q.K
	fail := func(exp, got string) { r.miss(k, tag, fmt.Sprintf("%s(%s) = %s", q.K, q.A, exp), got) }
	switch q.K {
	case "byhash":
		var id int
		var exp struct {
			Ok  *int   `json:"ok"`
			St  string `json:"st"`
			Ht  int    `json:"ht"`
			Err *int   `json:"err"`
		}
		_ = json.Unmarshal(q.A, &id)
		_ = json.Unmarshal(q.R, &exp)
		for _, path := range []string{"/api/v1/chain/header/", "/api/v1/chain/header/state/"} {
			code, body := r.S.HTTP("GET", path+c.HashOf(id), nil, nil)
			if exp.Ok != nil {
				if code != 200 || !strings.Contains(string(body), `"hash":"`+c.HashOf(id)+`"`) {
					fail("200 "+c.HashOf(id), fmt.Sprintf("%d %s", code, body))
				} else if strings.HasSuffix(path, "state/") {
					var sj stateJSON
					if json.Unmarshal(body, &sj) != nil || sj.State != stName[exp.St] || sj.Height != exp.Ht {
						fail(fmt.Sprintf("state %s height %d", stName[exp.St], exp.Ht), string(body))
					}
				}
			} else if code != 404 || !structured4xx(code, body) {
				fail("404 structured", fmt.Sprintf("%d %s", code, body))
			}
		}
	case "byheight":
		var a [2]int
		var exp struct {
			Must []int `json:"must"`
			May  []int `json:"may"`
		}
		_ = json.Unmarshal(q.A, &a)
		_ = json.Unmarshal(q.R, &exp)
		code, body := r.S.HTTP("GET", fmt.Sprintf("/api/v1/chain/header/byHeight?height=%d&count=%d", a[0], a[1]), nil, nil)
		var hs []hdrJSON
		if code != 200 {
			if len(exp.Must) == 0 && structured4xx(code, body) {
				return
			}
			fail("200", fmt.Sprintf("%d %s", code, body))
			return
		}
		if err := json.Unmarshal(body, &hs); err != nil {
			fail("list", string(body))
			return
		}
		var got []string
		for _, h := range hs {
			got = append(got, h.Hash)
		}
		ids := r.hashesToIDs(c, got)
		if !subset(exp.Must, ids) || !subset(ids, exp.May) || len(ids) != len(uniq(ids)) {
			fail(fmt.Sprintf("must %v may %v", exp.Must, exp.May), idsToStr(ids))
		}
	case "tips":
		var exp struct {
			Tips    []int `json:"tips"`
			Longest int   `json:"longest"`
		}
		_ = json.Unmarshal(q.R, &exp)
		code, body := r.S.HTTP("GET", "/api/v1/chain/tip", nil, nil)
		var ts []stateJSON
		if code != 200 || json.Unmarshal(body, &ts) != nil {
			fail("200 list", fmt.Sprintf("%d %s", code, body))
			return
		}
		var got []string
		for _, t := range ts {
			got = append(got, t.Header.Hash)
		}
		ids := sortedCopy(r.hashesToIDs(c, got))
		if !eqInts(ids, sortedCopy(exp.Tips)) {
			fail(idsToStr(sortedCopy(exp.Tips)), idsToStr(ids))
		}
		code, body = r.S.HTTP("GET", "/api/v1/chain/tip/longest", nil, nil)
		var one stateJSON
		if code != 200 || json.Unmarshal(body, &one) != nil || one.Header.Hash != c.HashOf(exp.Longest) {
			fail(fmt.Sprintf("longest %d", exp.Longest), fmt.Sprintf("%d %s", code, body))
		}
	case "ancestors":
		var a [2]int
		var exp struct {
			Ok   *[]int `json:"ok"`
			Err  *int   `json:"err"`
			Code string `json:"code"`
			Any  bool   `json:"any"`
		}
		_ = json.Unmarshal(q.A, &a)
		_ = json.Unmarshal(q.R, &exp)
		if exp.Any {
			return
		}
		code, body := r.S.HTTP("GET", "/api/v1/chain/header/"+c.HashOf(a[0])+"/"+c.HashOf(a[1])+"/ancestor", nil, nil)
		if exp.Ok != nil {
			var hs []hdrJSON
			if code != 200 || json.Unmarshal(body, &hs) != nil {
				fail("200 "+idsToStr(*exp.Ok), fmt.Sprintf("%d %s", code, body))
				return
			}
			var got []string
			for _, h := range hs {
				got = append(got, h.Hash)
			}
			ids := r.hashesToIDs(c, got)
			rev := append([]int(nil), ids...)
			for i, j := 0, len(rev)-1; i < j; i, j = i+1, j-1 {
				rev[i], rev[j] = rev[j], rev[i]
			}
			if !eqInts(ids, *exp.Ok) && !eqInts(rev, *exp.Ok) {
				fail(idsToStr(*exp.Ok), idsToStr(ids))
			}
			return
		}
		if !structured4xx(code, body) {
			fail("4xx "+exp.Code, fmt.Sprintf("%d %s", code, body))
			return
		}
		if exp.Code == "ErrHeadersNotPartOfTheSameChain" {
			var e errJSON
			_ = json.Unmarshal(body, &e)
			if e.Code != exp.Code {
				fail(exp.Code, e.Code)
			}
		}
	case "common":
		var a []int
		var exp struct {
			Ok  *int `json:"ok"`
			Err *int `json:"err"`
			Any bool `json:"any"`
		}
		_ = json.Unmarshal(q.A, &a)
		_ = json.Unmarshal(q.R, &exp)
		if exp.Any {
			return
		}
		hs := make([]string, len(a))
		for i, id := range a {
			hs[i] = c.HashOf(id)
		}
		bodyIn, _ := json.Marshal(hs)
		code, body := r.S.HTTP("POST", "/api/v1/chain/header/commonAncestor", bodyIn, nil)
		if exp.Ok != nil {
			var h hdrJSON
			if code != 200 || json.Unmarshal(body, &h) != nil || h.Hash != c.HashOf(*exp.Ok) {
				fail(fmt.Sprintf("200 id %d", *exp.Ok), fmt.Sprintf("%d %s -> id %v", code, body, c.ByHash[h.Hash]))
			}
			return
		}
		if !structured4xx(code, body) {
			fail("structured 4xx", fmt.Sprintf("%d %s", code, body))
		}
	case "verify":
		var a struct {
			Excess int      `json:"excess"`
			Items  [][2]int `json:"items"`
		}
		var exp struct {
			State string `json:"state"`
			Items []struct {
				V  string `json:"v"`
				ID int    `json:"id"`
			} `json:"items"`
		}
		_ = json.Unmarshal(q.A, &a)
		_ = json.Unmarshal(q.R, &exp)
		if len(a.Items) == 0 {
			return
		}
		if r.S.Cfg.MerkleRoot.MaxBlockHeightExcess != a.Excess {
			r.S.Cfg.MerkleRoot.MaxBlockHeightExcess = a.Excess
			if r.cur%8 == 0 && r.Fault.Kind == "" {
				// every eighth behaviour the value goes the way a configuration goes: the services are constructed anew from
				// it on the same database (the others change the field of the live configuration, which is much faster)
				r.S.Close()
				if err := r.S.Open(); err != nil {
					r.miss(k, "harness", "reopen with another max_block_height_excess", err.Error())
					return
				}
			}
		}
		// the order of the items of a request is the client's business: the specification's per-item verdicts go with their
		// items and its overall verdict (the worst one) does not depend on the order - as sent, reversed, or rotated
		if n := len(a.Items); n > 1 && len(exp.Items) == n {
			switch (r.cur + k) % 3 {
			case 1:
				for i, j := 0, n-1; i < j; i, j = i+1, j-1 {
					a.Items[i], a.Items[j] = a.Items[j], a.Items[i]
					exp.Items[i], exp.Items[j] = exp.Items[j], exp.Items[i]
				}
			case 2:
				a.Items = append(a.Items[1:], a.Items[0])
				exp.Items = append(exp.Items[1:], exp.Items[0])
			}
		}
		req := make([]domains.MerkleRootConfirmationRequestItem, len(a.Items))
		for i, it := range a.Items {
			req[i] = domains.MerkleRootConfirmationRequestItem{MerkleRoot: r.rootStr(c, it[0]), BlockHeight: int32(it[1])}
		}
		bodyIn, _ := json.Marshal(req)
		code, body := r.S.HTTP("POST", "/api/v1/chain/merkleroot/verify", bodyIn, nil)
		var got struct {
			State string `json:"confirmationState"`
			Items []struct {
				Hash   string `json:"blockHash"`
				Height int    `json:"blockHeight"`
				Root   string `json:"merkleRoot"`
				Conf   string `json:"confirmation"`
			} `json:"confirmations"`
		}
		if code != 200 || json.Unmarshal(body, &got) != nil {
			fail("200", fmt.Sprintf("%d %s", code, body))
			return
		}
		if got.State != exp.State || len(got.Items) != len(exp.Items) {
			fail(fmt.Sprintf("%s, %d items", exp.State, len(exp.Items)), fmt.Sprintf("%s, %d items", got.State, len(got.Items)))
			return
		}
		for i, e := range exp.Items {
			g := got.Items[i]
			eh := ""
			if e.ID >= 0 {
				eh = c.HashOf(e.ID)
			}
			if g.Conf != e.V || g.Hash != eh || g.Root != req[i].MerkleRoot || g.Height != int(req[i].BlockHeight) {
				fail(fmt.Sprintf("item %d (%v): %s hash id %d", i, a.Items[i], e.V, e.ID), fmt.Sprintf("%+v", g))
				return
			}
		}
		// the same through the service interface
		sv, err := r.S.Svc.Merkleroots.GetMerkleRootsConfirmations(req)
		if err != nil || len(sv) != len(exp.Items) {
			fail("service answer", fmt.Sprint(len(sv), err))
			return
		}
		for i, e := range exp.Items {
			if string(sv[i].Confirmation) != e.V {
				fail(fmt.Sprintf("service item %d %s", i, e.V), string(sv[i].Confirmation))
				return
			}
		}
	case "page":
		var a [2]int
		var exp struct {
			Err     *int     `json:"err"`
			Content [][2]int `json:"content"`
			Last    int      `json:"last"`
			Total   int      `json:"total"`
		}
		_ = json.Unmarshal(q.A, &a)
		_ = json.Unmarshal(q.R, &exp)
		url := fmt.Sprintf("/api/v1/chain/merkleroot?batchSize=%d", a[0])
		if a[1] != -1 {
			url += "&lastEvaluatedKey=" + r.rootStr(c, a[1])
		}
		code, body := r.S.HTTP("GET", url, nil, nil)
		if exp.Err != nil {
			if code != *exp.Err || !structured4xx(code, body) {
				fail(fmt.Sprintf("%d structured", *exp.Err), fmt.Sprintf("%d %s", code, body))
			}
			return
		}
		var got struct {
			Content []struct {
				Root   string `json:"merkleRoot"`
				Height int    `json:"blockHeight"`
			} `json:"content"`
			Page struct {
				Total int    `json:"totalElements"`
				Size  int    `json:"size"`
				Last  string `json:"lastEvaluatedKey"`
			} `json:"page"`
		}
		if code != 200 || json.Unmarshal(body, &got) != nil {
			fail("200", fmt.Sprintf("%d %s", code, body))
			return
		}
		expLast := ""
		if exp.Last != -1 {
			expLast = r.rootStr(c, exp.Last)
		}
		ok := len(got.Content) == len(exp.Content) && got.Page.Last == expLast && got.Page.Size == len(exp.Content) && got.Page.Total == exp.Total
		if ok {
			for i, e := range exp.Content {
				if got.Content[i].Root != r.rootStr(c, e[0]) || got.Content[i].Height != e[1] {
					ok = false
				}
			}
		}
		if !ok {
			fail(string(q.R), string(body))
			return
		}
		// Overlapping walks: the statement is about EVERY walk, also one that shares the server with other walks.  The page
		// just validated is requested again from several goroutines at once, half of them asking for the other end of the
		// chain in between; the store does not change, so every answer to this URL must be the validated one, byte by byte (every fifth page).
		if (r.cur+k)%5 == 0 {
			other := fmt.Sprintf("/api/v1/chain/merkleroot?batchSize=%d", a[0]+1)
			if a[1] == -1 && exp.Last != -1 {
				other = fmt.Sprintf("/api/v1/chain/merkleroot?batchSize=%d&lastEvaluatedKey=%s", a[0], expLast)
			}
			var wg sync.WaitGroup
			var mu sync.Mutex
			bad := ""
			for g := 0; g < 6; g++ {
				wg.Add(1)
				go func(g int) {
					defer wg.Done()
					for i := 0; i < 25; i++ {
						if g%2 == 1 {
							r.S.HTTP("GET", other, nil, nil)
							continue
						}
						code2, body2 := r.S.HTTP("GET", url, nil, nil)
						if code2 != code || !bytes.Equal(body2, body) {
							mu.Lock()
							if bad == "" {
								bad = fmt.Sprintf("%d %.400s", code2, body2)
							}
							mu.Unlock()
							return
						}
					}
				}(g)
			}
			wg.Wait()
			if bad != "" {
				fail(fmt.Sprintf("the same page while other walks are being served (%s): %.400s", other, body), bad)
				return
			}
		}
		// a key is a key: near misses of a stored root (other letter case, leading zeros dropped, one digit short) match no
		// block and get the not-found answer, never a page
		if a[1] != -1 && (r.cur+k)%2 == 0 {
			key := r.rootStr(c, a[1])
			near := []string{strings.ToUpper(key), strings.TrimLeft(key, "0"), key[:len(key)-1], "0x" + key}
			for _, v := range near {
				if v == key || v == "" {
					continue
				}
				code, body := r.S.HTTP("GET", fmt.Sprintf("/api/v1/chain/merkleroot?batchSize=%d&lastEvaluatedKey=%s", a[0], v), nil, nil)
				if code != 404 || !structured4xx(code, body) {
					fail(fmt.Sprintf("lastEvaluatedKey %q is not a stored merkle root (the stored one is %q): 404 structured", v, key), fmt.Sprintf("%d %.300s", code, body))
					return
				}
			}
		}
	case "locator":
		var exp []int
		_ = json.Unmarshal(q.R, &exp)
		loc := r.S.Svc.Headers.LatestHeaderLocator()
		var got []string
		for _, h := range loc {
			got = append(got, h.String())
		}
		ids := r.hashesToIDs(c, got)
		if !eqInts(ids, exp) {
			fail(idsToStr(exp), idsToStr(ids))
		}
	case "getheaders":
		var a struct {
			Loc  []int `json:"loc"`
			Stop int   `json:"stop"`
		}
		var exp []int
		_ = json.Unmarshal(q.A, &a)
		_ = json.Unmarshal(q.R, &exp)
		if len(a.Loc) == 0 {
			return // empty locator: not asserted (DESIGN.md C13)
		}
		for pass := 0; pass < 2; pass++ {
			loc := make(domains.BlockLocator, len(a.Loc))
			for i, id := range a.Loc {
				j := i
				if pass == 1 {
					j = len(a.Loc) - 1 - i
				}
				h := chainhash.Hash(c.hashBytes(a.Loc[j]))
				_ = id
				loc[i] = &h
			}
			stop := chainhash.Hash{}
			if a.Stop >= 0 {
				stop = chainhash.Hash(c.hashBytes(a.Stop))
			}
			hs := r.S.Svc.Headers.LocateHeaders(loc, &stop)
			ids := make([]int, len(hs))
			for i := range hs {
				raw := RawHeader{Version: hs[i].Version, Prev: hs[i].PrevBlock, Merkle: hs[i].MerkleRoot, Time: uint32(hs[i].Timestamp.Unix()), Bits: hs[i].Bits, Nonce: hs[i].Nonce}
				if id, ok := c.ByHash[HexRev(raw.Hash())]; ok {
					ids[i] = id
				} else {
					ids[i] = -77
				}
			}
			if !eqInts(ids, exp) {
				fail(idsToStr(exp), idsToStr(ids))
				return
			}
			hp, err := r.S.Svc.Headers.LocateHeadersGetHeaders(loc, &stop)
			if err == nil && len(hp) != len(exp) {
				fail(idsToStr(exp), fmt.Sprintf("LocateHeadersGetHeaders: %d headers", len(hp)))
				return
			}
		}
	case "export", "import":
		r.runExportImport(k, c, q, fail)
	default:
		r.miss(k, "harness", "known query kind", q.K)
	}
}

func uniq(a []int) []int {
	m := map[int]bool{}
	var out []int
	for _, x := range a {
		if !m[x] {
			m[x] = true
			out = append(out, x)
		}
	}
	return out
}

func (c *Concrete) hashBytes(id int) [32]byte {
	c.HashOf(id)
	return c.Hash[id]
}
