package chainh

import (
	"encoding/json"
	"errors"
	"fmt"
	"io"
	"net/http"
	"net/http/httptest"
	"os"
	"strings"
	"sync"
	"time"

	"github.com/bitcoin-sv/block-headers-service/config"
	"github.com/bitcoin-sv/block-headers-service/domains"
	"github.com/bitcoin-sv/block-headers-service/notification"
	"github.com/bitcoin-sv/block-headers-service/transports/websocket"
	"github.com/centrifugal/centrifuge"
	centrifugeclient "github.com/centrifugal/centrifuge-go"
)

// C11 binding: recording channels registered on the REAL Notifier, the real websocket channel with a recording
// publisher, the real WebhooksService (SQL repository) with a recording target client.

type evRec struct {
	Op     string
	Height int32
	Hash   string
	Ver    int32
	Merkle string
	Time   int64
	Nonce  uint32
	State  string
	Work   string
	Prev   string
}

func fromEvent(e any) (evRec, bool) {
	he, ok := e.(*domains.HeaderEvent)
	if !ok || he == nil || he.Header == nil {
		return evRec{Op: fmt.Sprintf("?%T", e)}, false
	}
	h := he.Header
	return evRec{Op: string(he.Operation), Height: h.Height, Hash: h.Hash, Ver: h.Version, Merkle: h.MerkleRoot, Time: h.Timestamp.Unix(),
		Nonce: h.Nonce, State: string(h.State), Work: h.CumulatedWork.String(), Prev: h.PreviousBlock}, true
}

func fromJSON(b []byte) (evRec, bool) {
	var j struct {
		Operation string `json:"operation"`
		Header    struct {
			Height int32       `json:"height"`
			Hash   string      `json:"hash"`
			Ver    int32       `json:"version"`
			Merkle string      `json:"merkleRoot"`
			Time   time.Time   `json:"creationTimestamp"`
			Nonce  uint32      `json:"nonce"`
			State  string      `json:"state"`
			Work   json.Number `json:"work"`
			Prev   string      `json:"prevBlockHash"`
		} `json:"header"`
	}
	if err := json.Unmarshal(b, &j); err != nil {
		return evRec{Op: "?json " + err.Error()}, false
	}
	h := j.Header
	return evRec{Op: j.Operation, Height: h.Height, Hash: h.Hash, Ver: h.Ver, Merkle: h.Merkle, Time: h.Time.Unix(), Nonce: h.Nonce,
		State: h.State, Work: h.Work.String(), Prev: h.Prev}, true
}

type recorder struct {
	mu   sync.Mutex
	name string
	evs  []evRec
}

func (r *recorder) add(e evRec) {
	r.mu.Lock()
	r.evs = append(r.evs, e)
	r.mu.Unlock()
}
func (r *recorder) count() int {
	r.mu.Lock()
	defer r.mu.Unlock()
	return len(r.evs)
}
func (r *recorder) snapshot() []evRec {
	r.mu.Lock()
	defer r.mu.Unlock()
	return append([]evRec(nil), r.evs...)
}

// plain recording channel with a behaviour: ok | slow | block | panicfree-error (returns after recording)
type recChan struct {
	rec     *recorder
	mode    string
	release chan struct{}
}

func (c *recChan) Notify(e notification.Event) {
	ev, _ := fromEvent(e)
	switch c.mode {
	case "slow":
		time.Sleep(3 * time.Millisecond)
	case "block":
		c.rec.add(ev) // the delivery was STARTED exactly once; it then hangs until released
		<-c.release
		return
	}
	c.rec.add(ev)
}

// recording websocket publisher (optionally failing)
type recPublisher struct {
	rec  *recorder
	fail bool
}

func (p *recPublisher) Publish(channel string, data []byte, _ ...centrifuge.PublishOption) (centrifuge.PublishResult, error) {
	ev, _ := fromJSON(data)
	if channel != "headers" {
		ev.Op = "?channel " + channel
	}
	p.rec.add(ev)
	if p.fail {
		return centrifuge.PublishResult{}, errors.New("verif: publish failed")
	}
	return centrifuge.PublishResult{}, nil
}

// recording webhook target client
type recClient struct {
	rec  *recorder
	mode string // ok | err | 500
}

func (c *recClient) Call(headers map[string]string, method string, url string, body any) (*http.Response, error) {
	ev, _ := fromEvent(body)
	if method != http.MethodPost {
		ev.Op = "?method " + method
	}
	c.rec.add(ev)
	switch c.mode {
	case "err":
		return nil, errors.New("verif: connection refused")
	case "500":
		return &http.Response{StatusCode: 500, Body: io.NopCloser(strings.NewReader("boom"))}, nil
	}
	return &http.Response{StatusCode: 200, Body: io.NopCloser(strings.NewReader("ok"))}, nil
}

var notifyCfg = config.WebhookConfig{MaxTries: 1000000}

// WsSkipped counts behaviours whose real websocket subscriber could not be set up.
var WsSkipped int

// NotifyRig is the set of channels registered for one behaviour.
type NotifyRig struct {
	recs    map[string]*recorder
	release chan struct{}
	order   []string
	cleanup []func()
}

// attach registers the channels on the stack's real notifier; variant selects which channel misbehaves.
func (r *Replayer) attachNotify(variant int) *NotifyRig {
	rig := &NotifyRig{recs: map[string]*recorder{}, release: make(chan struct{})}
	mk := func(n string) *recorder { x := &recorder{name: n}; rig.recs[n] = x; rig.order = append(rig.order, n); return x }
	s := r.S
	// 1. plain recorder
	s.Svc.Notifier.AddChannel(&recChan{rec: mk("plain"), mode: "ok"})
	// 2. a misbehaving plain channel
	mode := []string{"slow", "block", "ok"}[variant%3]
	s.Svc.Notifier.AddChannel(&recChan{rec: mk("bad-" + mode), mode: mode, release: rig.release})
	// 3. the real websocket channel over a recording publisher (failing in some variants)
	s.Svc.Notifier.AddChannel(notification.NewWebsocketChannel(&s.log, &recPublisher{rec: mk("ws"), fail: variant%2 == 1}, s.Cfg.Websocket))
	// 4. the real webhooks service over the SQL repository with a recording client; one webhook registered
	cm := []string{"ok", "err", "500", "ok"}[variant%4]
	wh := notification.NewWebhooksService(s.Repo.Webhooks, &recClient{rec: mk("webhook-" + cm), mode: cm}, &s.log, &notifyCfg)
	_, _ = s.DB.Exec("DELETE FROM webhooks")
	if _, err := wh.CreateWebhook("bearer", "", "tok", "http://verif.invalid/hook"); err != nil {
		rig.recs["webhook-"+cm].add(evRec{Op: "?register " + err.Error()})
	}
	s.Svc.Notifier.AddChannel(wh)
	// 5. one more plain recorder registered last (a failing/blocking channel before it must not suppress it)
	s.Svc.Notifier.AddChannel(&recChan{rec: mk("last"), mode: "ok"})
	// 6. (VERIF_WSREAL=1, every third variant) the real websocket server with its centrifuge node as the publisher, and a
	// real centrifuge client subscribed to the `headers` channel: what a subscriber RECEIVES, not what is handed to Publish
	if os.Getenv("VERIF_WSREAL") == "1" && variant%3 == 0 {
		if err := rig.attachRealWebsocket(s, mk("ws-subscriber")); err != nil {
			// the subscription could not be set up (a busy machine): this behaviour runs without that channel - not an observation
			delete(rig.recs, "ws-subscriber")
			rig.order = rig.order[:len(rig.order)-1]
			WsSkipped++
		}
	}
	return rig
}

// waitAll waits for every recorder, the blocked one included (after its release).
func (rig *NotifyRig) waitAll(want int, d time.Duration) {
	deadline := time.Now().Add(d)
	for time.Now().Before(deadline) {
		ok := true
		for _, rc := range rig.recs {
			if rc.count() < want {
				ok = false
			}
		}
		if ok {
			return
		}
		time.Sleep(200 * time.Microsecond)
	}
}

func (rig *NotifyRig) attachRealWebsocket(s *Stack, rec *recorder) error {
	ws, err := websocket.NewServer(&s.log, s.Svc, false)
	if err != nil {
		return err
	}
	ws.SetupEntrypoint(s.Engine)
	if err := ws.Start(); err != nil {
		return err
	}
	srv := httptest.NewServer(s.Engine)
	url := "ws" + strings.TrimPrefix(srv.URL, "http") + "/connection/websocket"
	cl := centrifugeclient.NewJsonClient(url, centrifugeclient.Config{})
	sub, err := cl.NewSubscription("headers")
	if err != nil {
		return err
	}
	sub.OnPublication(func(e centrifugeclient.PublicationEvent) {
		ev, _ := fromJSON(e.Data)
		rec.add(ev)
	})
	ready := make(chan struct{}, 1)
	sub.OnSubscribed(func(centrifugeclient.SubscribedEvent) {
		select {
		case ready <- struct{}{}:
		default:
		}
	})
	if err := cl.Connect(); err != nil {
		return err
	}
	if err := sub.Subscribe(); err != nil {
		return err
	}
	select {
	case <-ready:
	case <-time.After(30 * time.Second):
		cl.Close()
		srv.Close()
		_ = ws.Shutdown()
		return errors.New("subscription timeout")
	}
	s.Svc.Notifier.AddChannel(notification.NewWebsocketChannel(&s.log, ws.Publisher(), s.Cfg.Websocket))
	rig.cleanup = append(rig.cleanup, func() { cl.Close(); srv.Close(); _ = ws.Shutdown() })
	return nil
}

// waitCounts waits until every recorder has at least want events (or the deadline passes).  The channel that blocks for
// ever is not waited for: whether its deliveries are started one by one or all at once is the implementation's business
// (C11 asks that ingestion and the OTHER channels do not wait for it, and that it gets every event once - checked after release).
func (rig *NotifyRig) waitCounts(want int, d time.Duration) {
	deadline := time.Now().Add(d)
	for time.Now().Before(deadline) {
		ok := true
		for name, rc := range rig.recs {
			if name != "bad-block" && rc.count() < want {
				ok = false
			}
		}
		if ok {
			return
		}
		time.Sleep(200 * time.Microsecond)
	}
}

// EventCounter is a notification channel for the in-package rigs: it counts ADD events per block hash.
type EventCounter struct {
	mu   sync.Mutex
	Seen map[string]int
}

// Notify implements notification.Channel.
func (e *EventCounter) Notify(ev notification.Event) {
	r, ok := fromEvent(ev)
	e.mu.Lock()
	defer e.mu.Unlock()
	if e.Seen == nil {
		e.Seen = map[string]int{}
	}
	if !ok || r.Op != "ADD" {
		e.Seen["?"+r.Op]++
		return
	}
	e.Seen[r.Hash]++
}

// Snapshot returns a copy of the counters.
func (e *EventCounter) Snapshot() map[string]int {
	e.mu.Lock()
	defer e.mu.Unlock()
	m := make(map[string]int, len(e.Seen))
	for k, v := range e.Seen {
		m[k] = v
	}
	return m
}
