package chainh

import (
	"bufio"
	"encoding/json"
	"fmt"
	"math/rand"
	"os"
	"strings"

	"github.com/bitcoin-sv/block-headers-service/internal/chaincfg/chainhash"
)

func init() { extraOps["record"] = opRecord }

// opRecord drives long random histories from the Go side through the real stack and RECORDS what the stack did
// (answers and the projected headers table) as ndjson for validation by TLC against Chain.tla (direction B).
func opRecord() error {
	seed := envInt("VERIF_SEED", 1)
	ntr := int(envInt("VERIF_TRACES", 10))
	n := int(envInt("VERIF_LEN", 60))
	rp, err := NewReplayer(os.Getenv("VERIF_DB"), seed)
	if err != nil {
		return err
	}
	f, err := os.Create(os.Getenv("VERIF_OUT"))
	if err != nil {
		return err
	}
	defer f.Close()
	w := bufio.NewWriter(f)
	defer w.Flush()
	const never = 100001
	for t := 0; t < ntr; t++ {
		rng := rand.New(rand.NewSource(seed*7919 + int64(t)))
		// plan the history first (forbidden hashes must be configured before any header is submitted)
		var b Behaviour
		next := 1
		stored := []int{0}
		nl := n/2 + rng.Intn(n)
		for len(b.Hist) < nl {
			x := rng.Intn(100)
			switch {
			case x < 6 && next > 1:
				b.Hist = append(b.Hist, Step{Op: "resubmit", ID: 1 + rng.Intn(next-1)})
			case x < 8 && next > 1:
				b.Hist = append(b.Hist, Step{Op: "restart"})
			default:
				var p int
				y := rng.Intn(100)
				switch {
				case y < 45: // extend one of the most recent headers (long chains, deep forks)
					p = stored[len(stored)-1-rng.Intn(min(3, len(stored)))]
				case y < 85:
					p = stored[rng.Intn(len(stored))]
				case y < 93:
					p = next + 1 + rng.Intn(4) // arrives later (or never, if the history ends first)
				default:
					p = never
				}
				// never name one of this header's own declared descendants (a hash cycle cannot exist)
				declared := map[int]int{}
				for _, hs := range b.Hist {
					if hs.Op == "add" {
						declared[hs.ID] = hs.Parent
					}
				}
				for q, hops := p, 0; hops < 100000; hops++ {
					if q == next {
						p = 0
						break
					}
					nq, ok := declared[q]
					if !ok {
						break
					}
					q = nq
				}
				wk := []int{1, 1, 1, 2, 2, 4, 0}[rng.Intn(7)]
				root := next
				if rng.Intn(10) == 0 {
					root = 100
				}
				forb := rng.Intn(40) == 0
				b.Hist = append(b.Hist, Step{Op: "add", ID: next, Parent: p, Work: wk, Root: root, Forb: forb})
				stored = append(stored, next)
				next++
			}
		}
		c := Concretise(&b, rp.Genesis, seed+int64(t))
		var forb []*chainhash.Hash
		for id, s := range c.Decl {
			if s.Forb {
				h := chainhash.Hash(c.Hash[id])
				forb = append(forb, &h)
			}
		}
		if err := rp.S.Reset(); err != nil {
			return err
		}
		rp.Params.HeadersToIgnore = forb
		fmt.Fprintln(w, `{"ev":"reset"}`)
		nextID := 1
		for _, st := range b.Hist {
			ev := map[string]any{"ev": st.Op}
			switch st.Op {
			case "add", "resubmit":
				h, err, crashed := SafeAdd(rp.S.Svc.Chains, c.Source(st.ID))
				res := addResult(h, err)
				if crashed != "" {
					res = "crash:" + crashed
				}
				ev["id"], ev["res"] = st.ID, res
				if st.Op == "add" {
					ev["parent"], ev["work"], ev["root"], ev["forb"] = st.Parent, st.Work, st.Root, st.Forb
					nextID = st.ID + 1
				}
			case "restart":
				rp.S.Close()
				if err := rp.S.Open(); err != nil {
					return err
				}
				ev["res"] = "restart"
			}
			rows, err := rp.S.Rows()
			if err != nil {
				return err
			}
			stv := make([]string, nextID)
			htv := make([]int, nextID)
			for id := 0; id < nextID; id++ {
				if row, ok := rows[c.HashOf(id)]; ok {
					stv[id] = map[string]string{"LONGEST_CHAIN": "L", "STALE": "S", "ORPHAN": "O"}[row.State]
					htv[id] = row.Height
				} else {
					stv[id] = "-"
					htv[id] = -9
				}
			}
			ev["st"], ev["ht"] = stv, htv
			tip := rp.S.Svc.Headers.GetTip()
			ev["tip"] = -1
			if tip != nil {
				if id, ok := c.ByHash[tip.Hash.String()]; ok {
					ev["tip"] = id
				}
			}
			if len(rows) != nextID-strings.Count(strings.Join(stv, ""), "-") {
				ev["res"] = fmt.Sprintf("extra-rows:%d", len(rows))
			}
			js, _ := json.Marshal(ev)
			fmt.Fprintln(w, string(js))
		}
		rp.Params.HeadersToIgnore = nil
	}
	return nil
}
