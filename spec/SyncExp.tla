------------------------------ MODULE SyncExp ------------------------------
(***************************************************************************)
(* Header synchronisation of the EXPERIMENTAL engine (C06, C07):           *)
(* internal/transports/p2p/peer (peer.go, checkpoint.go): one peer, its    *)
(* reader goroutine ingests headers and drives a checkpoint cursor.        *)
(* Actions: Start (handshake + StartHeadersSync), Headers (one headers     *)
(* message handled), Inv, NodeReply / NodeAnnounce / NodeClose.            *)
(* The store is Chain.tla (AddRow); all blocks have work 1.                *)
(***************************************************************************)
EXTENDS Chain

CONSTANTS Par, Cap, Cps, Forbid, Findings

VARIABLES
  conn,      \* the connection is up
  nbest,     \* the node's tip
  cur,       \* checkpoint cursor: block id of the next checkpoint, 0 = all reached / none
  shm,       \* sendHeadersMode
  latest,    \* latestHeight
  xq,        \* messages for the engine's reader goroutine
  rq,        \* getheaders requests pending at the node
  gotSH,     \* the node has received `sendheaders`
  xsent      \* observation: what the engine sent / did in the last step

xvars == <<cvars, conn, nbest, cur, shm, latest, xq, rq, gotSH, xsent>>

Blocks  == DOMAIN Par
RECURSIVE HOf(_)
HOf(b)  == IF b = 0 THEN 0 ELSE 1 + HOf(Par[b])
RECURSIVE ChainOf(_)
ChainOf(b) == IF b = 0 THEN {0} ELSE {b} \cup ChainOf(Par[b])
AtH(b, h)  == CHOOSE x \in ChainOf(b) : HOf(x) = h
CpHeights == {HOf(c) : c \in Cps}
LastCpH   == IF Cps = {} THEN 0 ELSE Max(CpHeights)
CpAtH(h)  == CHOOSE c \in Cps : HOf(c) = h
\* newCheckpoint / findNextCheckpoint at creation: the first checkpoint strictly above the tip height
FirstCpAbove(h) == IF Cps = {} \/ h >= LastCpH THEN 0 ELSE CpAtH(Min({x \in CpHeights : x > h}))
\* next() after reaching the checkpoint at height h: the following entry of the list, nil after the last one
CpAfter(h) == IF h >= LastCpH THEN 0 ELSE CpAtH(Min({x \in CpHeights : x > h}))

LocOf(r) == LET t  == TipOf(r)
                hs == LocatorHeights(r[t].height)
            IN [k \in 1 .. Len(hs) |-> CHOOSE i \in LongestOf(r) : r[i].height = hs[k]]

XInit == /\ Init /\ conn = FALSE /\ nbest = 0 /\ cur = 0 /\ shm = FALSE /\ latest = 0
         /\ xq = <<>> /\ rq = <<>> /\ gotSH = FALSE /\ xsent = <<>>

Req(r, c) == [t |-> "gh", loc |-> LocOf(r), stop |-> IF c = 0 THEN -1 ELSE c]

\* the node is dialled, versions are exchanged, StartHeadersSync asks for the first batch
Start(b) ==
  /\ ~conn /\ b \in Blocks \cup {0}
  /\ conn' = TRUE /\ nbest' = b /\ latest' = HOf(b) /\ shm' = FALSE /\ gotSH' = FALSE
  /\ cur' = FirstCpAbove(rows[Tip].height)
  /\ rq' = <<Req(rows, cur')>> /\ xsent' = <<Req(rows, cur')>> /\ xq' = <<>>
  /\ UNCHANGED cvars

ReplyIds(r) ==
  LET mine  == ChainOf(nbest)
      hits  == {k \in 1 .. Len(r.loc) : r.loc[k] \in mine}
      start == IF hits = {} THEN 0 ELSE HOf(r.loc[Min(hits)])
      top   == HOf(nbest)
      stopH == IF r.stop \in mine /\ r.stop # -1 /\ HOf(r.stop) > start THEN HOf(r.stop) ELSE top
      end   == Min({start + Cap, stopH, top})
  IN IF end <= start THEN <<>> ELSE [k \in 1 .. (end - start) |-> AtH(nbest, start + k)]

NodeReply ==
  /\ conn /\ rq # <<>>
  /\ xq' = Append(xq, [t |-> "hdrs", ids |-> ReplyIds(Head(rq))])
  /\ rq' = Tail(rq) /\ xsent' = <<>>
  /\ UNCHANGED <<cvars, conn, nbest, cur, shm, latest, gotSH>>

\* a node that does not honour the stop hash (C07: any position of an offending header within any batch)
NodeReplyRaw ==
  /\ conn /\ rq # <<>>
  /\ xq' = Append(xq, [t |-> "hdrs", ids |-> ReplyIds([Head(rq) EXCEPT !.stop = -1])])
  /\ rq' = Tail(rq) /\ xsent' = <<>>
  /\ UNCHANGED <<cvars, conn, nbest, cur, shm, latest, gotSH>>

\* the node's chain grows by block b; a node that was sent `sendheaders` announces by headers, otherwise by inv
NodeAnnounce(b) ==
  /\ conn /\ b \in Blocks /\ HOf(b) > HOf(nbest)
  /\ nbest' = b
  /\ xq' = Append(xq, IF gotSH THEN [t |-> "hdrs", ids |-> <<b>>] ELSE [t |-> "inv", ids |-> <<b>>])
  /\ xsent' = <<>>
  /\ UNCHANGED <<cvars, conn, cur, shm, latest, rq, gotSH>>

NodeClose ==
  /\ conn /\ conn' = FALSE /\ xq' = <<>> /\ rq' = <<>> /\ xsent' = <<>>
  /\ UNCHANGED <<cvars, nbest, cur, shm, latest, gotSH>>

\* handleHeadersMsg: fold over the batch
RECURSIVE XIngest(_, _, _)
\* acc = [rows, cur, n, lastH, stop]
XIngest(ids, k, acc) ==
  IF k > Len(ids) THEN acc
  ELSE LET b == ids[k] IN
       IF b \in DOMAIN acc.rows THEN XIngest(ids, k + 1, acc)
       ELSE IF b \in Forbid THEN [acc EXCEPT !.stop = "forbidden"]
       ELSE LET r2 == AddRow(acc.rows, b, Par[b], 1, b)
                a2 == [acc EXCEPT !.rows = r2]
                ht == r2[b].height
            IN IF "X2-checkpoint-compared-only-at-cursor" \notin Findings /\ ht \in CpHeights /\ b # CpAtH(ht)
                 THEN [a2 EXCEPT !.stop = "cpmismatch"]                     \* C07 as stated: any new header at a checkpoint height
               ELSE IF r2[b].st # "L" THEN XIngest(ids, k + 1, a2)              \* not on the longest chain: skipped
               ELSE IF acc.cur = 0 \/ ht < HOf(acc.cur)
                      THEN XIngest(ids, k + 1, [a2 EXCEPT !.n = @ + 1, !.lastH = ht])
               ELSE IF ht = HOf(acc.cur)
                      THEN IF b = acc.cur
                             THEN XIngest(ids, k + 1, [a2 EXCEPT !.n = @ + 1, !.lastH = ht, !.cur = CpAfter(ht)])
                             ELSE [a2 EXCEPT !.stop = "cpmismatch"]
               ELSE [a2 EXCEPT !.stop = "abovecp"]                          \* a header above the next checkpoint height

XHeaders(m) ==
  LET res == XIngest(m.ids, 1, [rows |-> rows, cur |-> cur, n |-> 0, lastH |-> 0, stop |-> ""])
  IN /\ rows' = res.rows /\ cur' = res.cur
     /\ UNCHANGED <<decl, forbs, next, result, devused, nbest>>
     /\ IF res.stop # ""
          THEN /\ conn' = FALSE /\ xsent' = <<[t |-> "closed", loc |-> <<>>, stop |-> -1]>> /\ rq' = <<>>
               /\ UNCHANGED <<shm, latest, gotSH>>
        ELSE IF res.n = 0
          THEN /\ xsent' = <<>> /\ UNCHANGED <<conn, shm, latest, rq, gotSH>>
        ELSE LET lat == IF res.lastH > latest THEN res.lastH ELSE latest IN
             /\ latest' = lat /\ UNCHANGED conn
             /\ IF shm THEN xsent' = <<>> /\ UNCHANGED <<shm, rq, gotSH>>
                ELSE IF lat = res.rows[TipOf(res.rows)].height
                  THEN /\ shm' = TRUE /\ gotSH' = TRUE /\ xsent' = <<[t |-> "sendheaders", loc |-> <<>>, stop |-> -1]>> /\ UNCHANGED rq
                  ELSE /\ rq' = Append(rq, Req(res.rows, res.cur)) /\ xsent' = <<Req(res.rows, res.cur)>> /\ UNCHANGED <<shm, gotSH>>

\* handleInvMsg: ignored until syncedCheckpoints, which nothing ever sets (listed finding X1)
XInv(m) == /\ xsent' = <<>> /\ UNCHANGED <<cvars, conn, nbest, cur, shm, latest, rq, gotSH>>

XStep ==
  /\ conn /\ xq # <<>>
  /\ LET m == Head(xq) IN
       IF m.t = "hdrs" THEN XHeaders(m) ELSE XInv(m)
  /\ xq' = IF conn' THEN Tail(xq) ELSE <<>>

XEnv == \/ \E b \in Blocks \cup {0} : Start(b)
        \/ NodeReply \/ NodeReplyRaw \/ NodeClose
        \/ \E b \in Blocks : NodeAnnounce(b)
XNext == XStep \/ (xq = <<>> /\ XEnv)
XSpec == XInit /\ [][XNext]_xvars /\ WF_xvars(XStep) /\ WF_xvars(NodeReply)

XForbiddenNeverStored == Forbid \cap Stored = {}
XStoreValid == StructValid
=============================================================================
