------------------------------- MODULE Access -------------------------------
(***************************************************************************)
(* Authentication / authorisation of the HTTP API and of the websocket     *)
(* connect handshake (C09, C10).                                           *)
(*  - token life-cycle: a set model (issued, revoked) with the configured  *)
(*    admin token 0 that is always valid and cannot be revoked;            *)
(*  - Decide: the decision table of the auth middleware per route class,   *)
(*    credential class and configuration.                                  *)
(***************************************************************************)
EXTENDS Integers, Sequences, FiniteSets, TLC

CONSTANTS MaxTokens     \* issued tokens are 1..MaxTokens; MaxTokens+1 is a token that was never issued

VARIABLES issued, revoked, nextTok, lastRes
avars == <<issued, revoked, nextTok, lastRes>>

Admin   == 0
Unknown == MaxTokens + 1
Toks    == 0 .. Unknown

Valid(t)   == t = Admin \/ (t \in issued /\ t \notin revoked)
IsAdmin(t) == t = Admin

AInit == issued = {} /\ revoked = {} /\ nextTok = 1 /\ lastRes = [status |-> 0]

\* POST /access with credential `as`
Create(as) ==
  IF IsAdmin(as)
    THEN /\ nextTok <= MaxTokens
         /\ issued' = issued \cup {nextTok} /\ nextTok' = nextTok + 1
         /\ lastRes' = [status |-> 200, tok |-> nextTok]
         /\ UNCHANGED revoked
    ELSE /\ lastRes' = [status |-> 401] /\ UNCHANGED <<issued, revoked, nextTok>>

\* DELETE /access/:x with credential `as` (revoking an unknown, revoked or the admin token is accepted and changes nothing)
Revoke(as, x) ==
  IF IsAdmin(as)
    THEN /\ revoked' = revoked \cup ({x} \cap issued)
         /\ lastRes' = [status |-> 200] /\ UNCHANGED <<issued, nextTok>>
    ELSE /\ lastRes' = [status |-> 401] /\ UNCHANGED <<issued, revoked, nextTok>>

\* any authenticated route / the websocket connect handshake with token x
AuthHTTP(x) == lastRes' = (IF Valid(x) THEN [status |-> 200, admin |-> IsAdmin(x)] ELSE [status |-> 401]) /\ UNCHANGED <<issued, revoked, nextTok>>
AuthWS(x)   == lastRes' = [ws |-> Valid(x)] /\ UNCHANGED <<issued, revoked, nextTok>>
RestartA    == lastRes' = [status |-> 0] /\ UNCHANGED <<issued, revoked, nextTok>>

ANext == \/ \E as \in Toks : Create(as)
         \/ \E as \in Toks, x \in Toks : Revoke(as, x)
         \/ \E x \in Toks : AuthHTTP(x) \/ AuthWS(x)
         \/ RestartA
ASpec == AInit /\ [][ANext]_avars

\* C10
AdminAlways          == Valid(Admin) /\ Admin \notin revoked
RevokedNeverValid    == \A t \in revoked : ~Valid(t)
NeverIssuedNotValid  == \A t \in Toks \ {Admin} : t \notin issued => ~Valid(t)
RevocationIsForEver  == [][\A t \in revoked : t \in revoked']_avars
OthersUnaffected     == [][\A t \in Toks : (Valid(t) # Valid(t)') =>
                              \/ (t = nextTok /\ "tok" \in DOMAIN lastRes')                                \* just created
                              \/ (t \in revoked' \ revoked)]_avars                                          \* just revoked
RejectedChangesNothing == [][("status" \in DOMAIN lastRes' /\ lastRes'.status = 401) => <<issued, revoked, nextTok>>' = <<issued, revoked, nextTok>>]_avars

-----------------------------------------------------------------------------
\* C09: the middleware decision.  route classes x credential classes x configuration
RouteClasses == {"ApiUser", "ApiAdmin", "Public"}
CredClasses  == {"none", "empty", "wrongScheme", "extraParts", "unknown", "revoked", "user", "admin"}
CredValid(c) == c \in {"user", "admin"}
\* [may the handler run, must the answer be 401]
Decide(route, cred, useAuth) ==
  CASE route = "Public"   -> [runs |-> TRUE,  s401 |-> FALSE]
    [] ~useAuth           -> [runs |-> TRUE,  s401 |-> FALSE]
    [] route = "ApiUser"  -> [runs |-> CredValid(cred), s401 |-> ~CredValid(cred)]
    [] route = "ApiAdmin" -> [runs |-> cred = "admin",   s401 |-> cred # "admin"]
DecisionTable == {[route |-> r, cred |-> c, auth |-> a, d |-> Decide(r, c, a)] : r \in RouteClasses, c \in CredClasses, a \in BOOLEAN}
NoApiHandlerWithoutValidToken ==
  \A e \in DecisionTable : (e.auth /\ e.route # "Public" /\ ~CredValid(e.cred)) => (~e.d.runs /\ e.d.s401)
AdminOnlyForTokenMgmt ==
  \A e \in DecisionTable : (e.auth /\ e.route = "ApiAdmin" /\ e.cred # "admin") => (~e.d.runs /\ e.d.s401)
AuthOffOpens == \A e \in DecisionTable : ~e.auth => e.d.runs
=============================================================================
