------------------------------- MODULE Access -------------------------------
(***************************************************************************)
(* Authentication / authorisation of the HTTP API and of the websocket     *)
(* connect handshake (C09, C10).                                           *)
(*  - token life-cycle: a set model (issued, revoked) with the configured  *)
(*    admin token 0 that is always valid and cannot be revoked;            *)
(*  - Decide: the decision table of the auth middleware per route class,   *)
(*    credential class and configuration.                                  *)
(***************************************************************************)
EXTENDS Integers, Sequences, FiniteSets, TLC

CONSTANTS MaxTokens     \* issued tokens are 1..MaxTokens; MaxTokens+1 is a token that was never issued

VARIABLES issued, revoked, nextTok, lastRes,
          gen        \* generation of the configured admin token: the operator may change http.auth_token and restart
avars == <<issued, revoked, nextTok, lastRes, gen>>

Admin   == 0                 \* the admin token configured first
Unknown == MaxTokens + 1
Admin2  == MaxTokens + 2     \* the admin token configured after a rotation
Prefix  == MaxTokens + 3     \* a proper prefix of the CURRENT admin token        (never a credential)
Plus    == MaxTokens + 4     \* the CURRENT admin token with a character appended (never a credential)
Toks    == 0 .. Plus

CurAdmin   == IF gen = 0 THEN Admin ELSE Admin2
IsAdmin(t) == t = CurAdmin
Valid(t)   == IsAdmin(t) \/ (t \in issued /\ t \notin revoked)

AInit == issued = {} /\ revoked = {} /\ nextTok = 1 /\ lastRes = [status |-> 0] /\ gen = 0

\* POST /access with credential `as`
Create(as) ==
  IF IsAdmin(as)
    THEN /\ nextTok <= MaxTokens
         /\ issued' = issued \cup {nextTok} /\ nextTok' = nextTok + 1
         /\ lastRes' = [status |-> 200, tok |-> nextTok]
         /\ UNCHANGED <<revoked, gen>>
    ELSE /\ lastRes' = [status |-> 401] /\ UNCHANGED <<issued, revoked, nextTok, gen>>

\* DELETE /access/:x with credential `as` (revoking an unknown, revoked or the admin token is accepted and changes nothing)
Revoke(as, x) ==
  IF IsAdmin(as)
    THEN /\ revoked' = revoked \cup ({x} \cap issued)
         /\ lastRes' = [status |-> 200] /\ UNCHANGED <<issued, nextTok, gen>>
    ELSE /\ lastRes' = [status |-> 401] /\ UNCHANGED <<issued, revoked, nextTok, gen>>

\* any authenticated route / the websocket connect handshake with token x
AuthHTTP(x) == lastRes' = (IF Valid(x) THEN [status |-> 200, admin |-> IsAdmin(x)] ELSE [status |-> 401]) /\ UNCHANGED <<issued, revoked, nextTok, gen>>
AuthWS(x)   == lastRes' = [ws |-> Valid(x)] /\ UNCHANGED <<issued, revoked, nextTok, gen>>
RestartA    == lastRes' = [status |-> 0] /\ UNCHANGED <<issued, revoked, nextTok, gen>>
\* the operator configures another admin token and restarts on the same database: the former admin token is from now on
\* a string that was never issued
RotateA     == gen = 0 /\ gen' = 1 /\ lastRes' = [status |-> 0] /\ UNCHANGED <<issued, revoked, nextTok>>

ANext == \/ \E as \in Toks : Create(as)
         \/ \E as \in Toks, x \in Toks : Revoke(as, x)
         \/ \E x \in Toks : AuthHTTP(x) \/ AuthWS(x)
         \/ RestartA \/ RotateA
ASpec == AInit /\ [][ANext]_avars

\* C10
AdminAlways          == Valid(CurAdmin) /\ CurAdmin \notin revoked
RevokedNeverValid    == \A t \in revoked : ~Valid(t)
NeverIssuedNotValid  == \A t \in Toks \ {CurAdmin} : t \notin issued => ~Valid(t)     \* incl. a former admin token, prefixes, extensions
RevocationIsForEver  == [][\A t \in revoked : t \in revoked']_avars
OthersUnaffected     == [][\A t \in Toks : (Valid(t) # Valid(t)') =>
                              \/ (t = nextTok /\ "tok" \in DOMAIN lastRes')                                \* just created
                              \/ (t \in revoked' \ revoked)                                                \* just revoked
                              \/ (gen' # gen /\ t \in {Admin, Admin2})]_avars                             \* admin token rotated
RejectedChangesNothing == [][("status" \in DOMAIN lastRes' /\ lastRes'.status = 401) => <<issued, revoked, nextTok, gen>>' = <<issued, revoked, nextTok, gen>>]_avars

-----------------------------------------------------------------------------
\* C09: the middleware decision.  route classes x credential classes x configuration
RouteClasses == {"ApiUser", "ApiAdmin", "Public"}
CredClasses  == {"none", "empty", "wrongScheme", "extraParts", "unknown", "revoked", "user", "admin",
                 "adminPrefix", "adminPlus", "userPrefix", "bearerOnly", "schemeOnly", "oneChar"}
CredValid(c) == c \in {"user", "admin"}
\* [may the handler run, must the answer be 401]
Decide(route, cred, useAuth) ==
  CASE route = "Public"   -> [runs |-> TRUE,  s401 |-> FALSE]
    [] ~useAuth           -> [runs |-> TRUE,  s401 |-> FALSE]
    [] route = "ApiUser"  -> [runs |-> CredValid(cred), s401 |-> ~CredValid(cred)]
    [] route = "ApiAdmin" -> [runs |-> cred = "admin",   s401 |-> cred # "admin"]
DecisionTable == {[route |-> r, cred |-> c, auth |-> a, d |-> Decide(r, c, a)] : r \in RouteClasses, c \in CredClasses, a \in BOOLEAN}
NoApiHandlerWithoutValidToken ==
  \A e \in DecisionTable : (e.auth /\ e.route # "Public" /\ ~CredValid(e.cred)) => (~e.d.runs /\ e.d.s401)
AdminOnlyForTokenMgmt ==
  \A e \in DecisionTable : (e.auth /\ e.route = "ApiAdmin" /\ e.cred # "admin") => (~e.d.runs /\ e.d.s401)
AuthOffOpens == \A e \in DecisionTable : ~e.auth => e.d.runs
=============================================================================
