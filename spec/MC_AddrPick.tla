---------------------------- MODULE MC_AddrPick ----------------------------
EXTENDS AddrPick, Json, SequencesExt
VARIABLE dummy
APInit == dummy = 0
APNext == UNCHANGED dummy
APSpec == APInit /\ [][APNext]_dummy
EmitInv == dummy = 0 => PrintT(ToJson([rows |-> SetToSeq(Rows)]))
=============================================================================
