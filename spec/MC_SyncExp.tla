----------------------------- MODULE MC_SyncExp -----------------------------
EXTENDS SyncExp, Json, SequencesExt
CONSTANTS H, F, ForkAt, F2, ForkAt2, CpHs, MaxEnv, MaxRaw, Emit, Scenario
\* honest chain 1..H; a branch H+1..H+F leaving it after height ForkAt; optionally a second branch H+F+1..H+F+F2 after ForkAt2
ParV == [b \in 1 .. (H + F + F2) |-> IF b <= H THEN b - 1 ELSE IF b = H + 1 THEN ForkAt
                                       ELSE IF b <= H + F THEN b - 1 ELSE IF b = H + F + 1 THEN ForkAt2 ELSE b - 1]
CpsV == {h \in CpHs : h <= H}
VARIABLES hist, nenv, ign     \* ign: an inv announcement was ignored earlier in this history (sticky: the engine then
                              \* believes it is level with the node, and a header announced later is stored as an orphan for good)
mxvars == <<xvars, hist, nenv, ign>>
NB == H + F + F2
StV == [k \in 1 .. (NB + 1) |-> IF (k - 1) \in DOMAIN rows' THEN rows'[k - 1].st ELSE "-"]
Obs == [sent |-> xsent', tip |-> TipOf(rows'), st |-> StV, conn |-> conn', kind |-> "x"]
NRaw == Cardinality({k \in 1 .. Len(hist) : "raw" \in DOMAIN hist[k]})
MXInit == XInit /\ hist = <<>> /\ nenv = 0 /\ ign = FALSE
LogEnv(rec) == hist' = Append(hist, rec @@ [kind |-> "env"] @@ Obs) /\ nenv' = nenv + 1
MXEnv ==
  /\ xq = <<>> /\ nenv < MaxEnv
  /\ \/ \E b \in {0} \cup (1 .. NB) : Start(b) /\ LogEnv([op |-> "start", b |-> b]) /\ UNCHANGED ign
     \/ NodeReply /\ LogEnv([op |-> "reply", ids |-> ReplyIds(Head(rq))]) /\ UNCHANGED ign
     \/ /\ NRaw < MaxRaw /\ rq # <<>> /\ ReplyIds([Head(rq) EXCEPT !.stop = -1]) # ReplyIds(Head(rq))
        /\ NodeReplyRaw /\ LogEnv([op |-> "reply", ids |-> ReplyIds([Head(rq) EXCEPT !.stop = -1]), raw |-> TRUE]) /\ UNCHANGED ign
     \/ NodeClose /\ LogEnv([op |-> "close"]) /\ UNCHANGED ign
     \/ \E b \in 1 .. NB : Par[b] = nbest /\ NodeAnnounce(b) /\ LogEnv([op |-> "announce", b |-> b, how |-> IF gotSH THEN "headers" ELSE "inv"]) /\ UNCHANGED ign
\* phase 2: the node keeps answering until nothing is asked
MXDrain == /\ xq = <<>> /\ nenv >= MaxEnv /\ conn /\ rq # <<>>
           /\ NodeReply /\ hist' = Append(hist, [op |-> "reply", ids |-> ReplyIds(Head(rq)), kind |-> "env"] @@ Obs) /\ UNCHANGED <<nenv, ign>>
MXStep == XStep /\ hist' = Append(hist, Obs) /\ UNCHANGED nenv /\ ign' = (ign \/ Head(xq).t = "inv")
MXNext == MXStep \/ MXEnv \/ MXDrain
MXSpec == MXInit /\ [][MXNext]_mxvars
XView == <<xvars, ign, nenv, NRaw>>
Terminal == xq = <<>> /\ nenv >= MaxEnv /\ (~conn \/ rq = <<>>)
StNow == [k \in 1 .. (NB + 1) |-> IF (k - 1) \in DOMAIN rows THEN rows[k - 1].st ELSE "-"]
\* known limitation X1 of the experimental engine: inv announcements are ignored for ever (syncedCheckpoints is never set), so
\* a node that has not been sent `sendheaders` (the engine only sends it once it is level with the node) is never followed
Conv == ~conn \/ nbest = 0 \/ (nbest \in Stored /\ rows[Tip].height >= HOf(nbest))
Why == IF Conv THEN "" ELSE IF ign THEN "X1-inv-ignored" ELSE "unexplained"
\* C13 at the protocol level, experimental engine: at the end the node asks for everything after genesis.  The answer owed is
\* Chain!GetHeaders; handleGetHeadersMsg sits behind the same never-set flag as the inv handler (listed finding X1): no answer.
ServedX == IF "X1-inv-ignored" \in Findings THEN [sent |-> FALSE, ids |-> <<>>] ELSE [sent |-> TRUE, ids |-> GetHeaders({0}, -1, 2000)]
Final == [st |-> StNow, tip |-> Tip, bestoff |-> IF conn THEN nbest ELSE -1, best |-> IF conn /\ nbest # 0 THEN <<nbest>> ELSE <<>>, conv |-> Conv, why |-> Why,
          served |-> ServedX]
Scn == [par |-> [b \in 1 .. NB |-> ParV[b]], cps |-> SetToSeq(CpsV), forbid |-> SetToSeq(Forbid), cap |-> Cap, name |-> Scenario, findings |-> SetToSeq(Findings)]
EmitInv == (Emit = "paths" /\ Terminal) => PrintT(ToJson([hist |-> hist, scn |-> Scn, final |-> Final]))
ConvergesOrListed == Terminal => (Why = "" \/ Why \in Findings)
=============================================================================
