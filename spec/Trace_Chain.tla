----------------------------- MODULE Trace_Chain -----------------------------
(* Direction B: validate executions RECORDED from the real stack (harness op   *)
(* "record": long random histories driven from Go) against Chain.tla.  One     *)
(* trace action per event kind; each reuses the specification's own action and *)
(* then requires the logged answer and the logged projection of the headers    *)
(* table to equal the specification's.  Traces are concatenated with "reset".  *)
EXTENDS Chain, Json

VARIABLE l
tvars == <<cvars, l>>

TraceLog == ndJsonDeserialize("chain_trace.ndjson")
Ev    == TraceLog[l]

Matches ==
  /\ result' = Ev.res
  /\ Len(Ev.st) = next'
  /\ \A k \in 1 .. next' : IF (k - 1) \in DOMAIN rows' THEN rows'[k - 1].st = Ev.st[k] /\ rows'[k - 1].height = Ev.ht[k]
                           ELSE Ev.st[k] = "-"
  /\ TipOf(rows') = Ev.tip

TAdd      == Ev.ev = "add" /\ next = Ev.id /\ SubmitNew(Ev.parent, Ev.work, Ev.root, Ev.forb) /\ Matches
TResubmit == Ev.ev = "resubmit" /\ Resubmit(Ev.id) /\ Matches
TRestart  == Ev.ev = "restart" /\ Restart /\ Matches
TReset    == /\ Ev.ev = "reset"
             /\ rows' = (0 :> GenesisRow) /\ decl' = (0 :> -1) /\ forbs' = {} /\ next' = 1
             /\ result' = "init" /\ devused' = ""

TraceNext == l <= Len(TraceLog) /\ l' = l + 1 /\ (TAdd \/ TResubmit \/ TRestart \/ TReset)
TraceSpec == Init /\ l = 1 /\ [][TraceNext]_tvars

TraceInv == StructValid /\ OrphanRule /\ DerivedFieldsExact /\ ForbiddenNeverStored /\ LabelsTotal
TraceAccepted == TLCGet("stats").diameter - 1 = Len(TraceLog)
=============================================================================
