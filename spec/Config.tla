------------------------------- MODULE Config -------------------------------
(***************************************************************************)
(* C20: configuration resolution and validation.                           *)
(*  - Effective: for every key the value comes from the BHS_ environment   *)
(*    variable if set, else from the configuration file, else the default; *)
(*    a key nobody overrides keeps its default whatever happens to others; *)
(*  - ValidateDb: the decision table of the database section.              *)
(***************************************************************************)
EXTENDS Integers, Sequences, FiniteSets, TLC

VARIABLE dummy

Sources == {"env", "file"}
Types   == {"string", "int", "bool", "duration", "uint16", "enum"}

Effective(srcs) == IF "env" \in srcs THEN "env" ELSE IF "file" \in srcs THEN "file" ELSE "default"

\* one row per (type of key, subset of sources that provide a value)
PrecedenceTable == {[type |-> t, srcs |-> s, expect |-> Effective(s)] : t \in Types, s \in SUBSET Sources}

Precedence == dummy = 0 =>
  /\ \A r \in PrecedenceTable : "env" \in r.srcs => r.expect = "env"
  /\ \A r \in PrecedenceTable : ("env" \notin r.srcs /\ "file" \in r.srcs) => r.expect = "file"
  /\ \A r \in PrecedenceTable : r.srcs = {} => r.expect = "default"

Engines == {"sqlite", "postgres", "", "mysql"}
\* database section: engine, sqlite path set?, postgres host/port/user/db_name set?, prepared db on?, prepared path set?, prepared file exists?
\* and a circumstance the decision must NOT depend on: does the SQLite database file exist already (a restart)?
DbRows == {[engine |-> e, sqlite |-> sp, host |-> h, port |-> p, user |-> u, dbname |-> d, prepared |-> pr, ppath |-> pp, pexists |-> px, dbexists |-> dx] :
             e \in Engines, sp \in BOOLEAN, h \in BOOLEAN, p \in BOOLEAN, u \in BOOLEAN, d \in BOOLEAN, pr \in BOOLEAN, pp \in BOOLEAN, px \in BOOLEAN, dx \in BOOLEAN}
Accept(r) ==
  /\ (r.prepared => (r.ppath /\ r.pexists))
  /\ CASE r.engine = "sqlite"   -> r.sqlite
       [] r.engine = "postgres" -> r.host /\ r.port /\ r.user /\ r.dbname
       [] OTHER -> FALSE
\* a file can only exist at a non-empty path
Meaningful(r) == (r.pexists => r.ppath) /\ (r.dbexists => r.sqlite)
ValidationTable == {[row |-> r, accept |-> Accept(r)] : r \in {x \in DbRows : Meaningful(x)}}

InvalidDbRefused == dummy = 0 =>
  /\ \A v \in ValidationTable : v.row.engine \notin {"sqlite", "postgres"} => ~v.accept
  /\ \A v \in ValidationTable : (v.row.engine = "sqlite" /\ ~v.row.sqlite) => ~v.accept
  /\ \A v \in ValidationTable : (v.row.engine = "postgres" /\ ~(v.row.host /\ v.row.port /\ v.row.user /\ v.row.dbname)) => ~v.accept
  /\ \A v \in ValidationTable : (v.row.prepared /\ ~v.row.pexists) => ~v.accept

CInit == dummy = 0
CNext == UNCHANGED dummy
CSpec == CInit /\ [][CNext]_dummy
=============================================================================
