------------------------------ MODULE AddrPick ------------------------------
(***************************************************************************)
(* C18, the bridge between the connection manager and the address book:    *)
(* p2putil.NewAddressFunc, the function the connection manager calls       *)
(* (GetNewAddress) whenever it needs an address to dial.  It draws up to   *)
(* 100 candidates from the address manager and returns the first one that  *)
(*   - is not in a /16 group that already has an outbound connection,      *)
(*   - was not attempted in the last ten minutes - unless 30 draws failed, *)
(*   - has the network's default port           - unless 50 draws failed;  *)
(* a nil draw (empty address book) or 100 unsuitable draws end in an error *)
(* (the connection manager then retries later: ConnMgr.tla's NoAddr).      *)
(* A decision procedure over the SEQUENCE of draws; TLC emits the table    *)
(* for a family of sequences (a filler candidate everywhere, one special   *)
(* candidate at position k, the book running dry at position j) around     *)
(* every threshold, and the rows are replayed on the real function with    *)
(* real addrmgr.KnownAddress values drawn from real address managers.      *)
(***************************************************************************)
EXTENDS Integers, FiniteSets, Sequences, TLC

MaxDraws == 100
RecentUntil == 30       \* draws after which a recently attempted address is taken anyway
AnyPortFrom == 50       \* draws after which a non-default port is taken anyway

Classes == [grp : BOOLEAN, recent : BOOLEAN, defport : BOOLEAN]
Positions == {0, 1, 29, 30, 31, 49, 50, 51, 98, 99}
DryAt == {-1, 0, 29, 30, 60, 99}      \* -1: the book never runs dry

Eligible(c, t) == ~c.grp /\ (t >= RecentUntil \/ ~c.recent) /\ (t >= AnyPortFrom \/ c.defport)

\* the draw at position t of the sequence (filler f, special candidate c at k)
Draw(f, k, c, t) == IF t = k THEN [who |-> "special"] @@ c ELSE [who |-> "filler"] @@ f

Min(S) == CHOOSE x \in S : \A y \in S : x <= y
Outcome(f, k, c, j) ==
  LET last == IF j = -1 THEN MaxDraws - 1 ELSE j - 1
      S == {t \in 0 .. last : Eligible(Draw(f, k, c, t), t)}
  IN IF S = {} THEN [ok |-> FALSE, draws |-> IF j = -1 THEN MaxDraws ELSE j + 1, who |-> "none"]
     ELSE [ok |-> TRUE, draws |-> Min(S) + 1, who |-> Draw(f, k, c, Min(S)).who]

Rows == {[f |-> f, k |-> k, c |-> c, j |-> j, out |-> Outcome(f, k, c, j)] : f \in Classes, k \in Positions, c \in Classes, j \in DryAt}

-----------------------------------------------------------------------------
Taken(r) == IF r.out.who = "special" THEN r.c ELSE r.f
NeverAConnectedGroup == \A r \in Rows : r.out.ok => ~Taken(r).grp
RecentOnlyAfter30    == \A r \in Rows : (r.out.ok /\ Taken(r).recent) => r.out.draws > RecentUntil
OtherPortOnlyAfter50 == \A r \in Rows : (r.out.ok /\ ~Taken(r).defport) => r.out.draws > AnyPortFrom
\* it keeps drawing: whenever some draw before the book runs dry is suitable at its position, an address is returned
KeepsDrawing == \A r \in Rows :
  LET last == IF r.j = -1 THEN MaxDraws - 1 ELSE r.j - 1
  IN (\E t \in 0 .. last : Eligible(Draw(r.f, r.k, r.c, t), t)) => r.out.ok
AtMostHundredDraws == \A r \in Rows : r.out.draws <= MaxDraws
=============================================================================
