------------------------------ MODULE Webhooks ------------------------------
(***************************************************************************)
(* Webhook registration and delivery bookkeeping (C12):                    *)
(* notification/webhooks.go, webhooks_service.go, SQL webhook repository,  *)
(* /api/v1/webhook endpoints.  Events are delivered one at a time.         *)
(***************************************************************************)
EXTENDS Integers, Sequences, FiniteSets, TLC

CONSTANTS Urls, MaxTries

VARIABLES hooks,    \* url -> [reg, active, errors, auth, last]   last \in {"none", "ok", "fail"}
          wres      \* answer / effect of the last operation
wvars == <<hooks, wres>>

AuthKinds == {"bearer", "custom", "none"}
Outcomes  == {"200", "500", "transportErr", "unreadableBody"}
Fresh     == [reg |-> FALSE, active |-> FALSE, errors |-> 0, auth |-> "none", last |-> "none"]

WInit == hooks = [u \in Urls |-> Fresh] /\ wres = [op |-> "init"]

\* POST /webhook
Register(u, a) ==
  /\ a \in AuthKinds
  /\ IF ~hooks[u].reg
       THEN /\ hooks' = [hooks EXCEPT ![u] = [reg |-> TRUE, active |-> TRUE, errors |-> 0, auth |-> a, last |-> "none"]]
            /\ wres' = [op |-> "register", status |-> 200]
     ELSE IF ~hooks[u].active                       \* re-registering an inactive url reactivates it with a zero count
       THEN /\ hooks' = [hooks EXCEPT ![u].active = TRUE, ![u].errors = 0]
            /\ wres' = [op |-> "register", status |-> 200]
     ELSE /\ wres' = [op |-> "register", status |-> 400] /\ UNCHANGED hooks     \* active: refused

\* DELETE /webhook?url=
Delete(u) ==
  IF hooks[u].reg THEN hooks' = [hooks EXCEPT ![u] = Fresh] /\ wres' = [op |-> "delete", status |-> 200]
                  ELSE wres' = [op |-> "delete", status |-> 404] /\ UNCHANGED hooks

Called == {u \in Urls : hooks[u].reg /\ hooks[u].active}

\* one event; oc: url -> outcome of the POST to that url (only consulted for called hooks)
AfterCall(h, o) ==
  IF o = "200" THEN [h EXCEPT !.errors = 0, !.active = TRUE, !.last = "ok"]
  ELSE [h EXCEPT !.errors = h.errors + 1, !.active = (h.errors + 1 < MaxTries), !.last = "fail"]
Notify(oc) ==
  /\ hooks' = [u \in Urls |-> IF u \in Called THEN AfterCall(hooks[u], oc[u]) ELSE hooks[u]]
  /\ wres' = [op |-> "notify", calls |-> {[url |-> u, auth |-> hooks[u].auth] : u \in Called}]

RestartW == wres' = [op |-> "restart"] /\ UNCHANGED hooks

WNext == \/ \E u \in Urls, a \in AuthKinds : Register(u, a)
         \/ \E u \in Urls : Delete(u)
         \/ \E oc \in [Urls -> Outcomes] : Notify(oc)
         \/ RestartW
WSpec == WInit /\ [][WNext]_wvars

InactiveIffErrorsReachedMax == \A u \in Urls : hooks[u].reg => (hooks[u].active <=> hooks[u].errors < MaxTries)
ErrorsBounded               == \A u \in Urls : hooks[u].errors <= MaxTries
SuccessResets   == [][\A u \in Urls : (hooks'[u].last = "ok" /\ wres'.op = "notify" /\ u \in Called) => hooks'[u].errors = 0]_wvars
InactiveOrDeletedNotCalled ==
  [][wres'.op = "notify" => \A cl \in wres'.calls : hooks[cl.url].reg /\ hooks[cl.url].active]_wvars
OnePostPerEventWithExactAuth ==
  [][wres'.op = "notify" => \A u \in Called : [url |-> u, auth |-> hooks[u].auth] \in wres'.calls]_wvars
ReRegisterRule ==
  [][wres'.op = "register" =>
       \A u \in Urls : (hooks[u] # hooks'[u] \/ wres'.status = 400) =>
          \/ (~hooks[u].reg /\ hooks'[u].active /\ hooks'[u].errors = 0)
          \/ (hooks[u].reg /\ ~hooks[u].active /\ hooks'[u].active /\ hooks'[u].errors = 0 /\ wres'.status = 200)
          \/ (hooks[u].reg /\ hooks[u].active /\ wres'.status = 400 /\ hooks'[u] = hooks[u])
          \/ hooks[u] = hooks'[u]]_wvars
=============================================================================
