-------------------------------- MODULE Wire --------------------------------
(***************************************************************************)
(* C14: the wire codec as a frame parser state machine                     *)
(* (internal/wire/message.go ReadMessageWithEncodingN):                    *)
(*   header(24 bytes) -> global length limit -> network magic -> command   *)
(*   utf8 -> known command -> per-type length limit -> payload read ->     *)
(*   checksum -> decode                                                    *)
(* A frame is described by classes; Read gives the verdict the parser owes.*)
(***************************************************************************)
EXTENDS Integers, Sequences, FiniteSets, TLC

VARIABLE dummy

Kinds == {"version", "verack", "getaddr", "addr", "getheaders", "getblocks", "headers", "inv", "getdata", "notfound",
          "ping", "pong", "reject", "sendheaders", "feefilter", "mempool", "protoconf", "authch"}
EmptyPayloadKinds   == {"verack", "getaddr", "sendheaders", "mempool"}
IgnoredPayloadKinds == {"protoconf", "authch"}
CountedKinds        == {"addr", "getheaders", "getblocks", "headers", "inv", "getdata", "notfound", "version", "reject"}

HeaderClasses  == {"full", "short"}                               \* fewer than 24 header bytes
MagicClasses   == {"ok", "othernet", "garbage"}
CmdClasses     == {"known", "unknown", "nonutf8", "nulsplice"}     \* nulsplice: known name, NUL, then non-zero bytes
LenClasses     == {"exact", "declaredLonger", "declaredShorter", "overType", "overGlobal"}
SumClasses     == {"ok", "bad"}
PayloadClasses == {"valid", "truncatedInside", "countInflated", "countHuge", "trailingGarbage", "bitflip"}   \* countHuge: a 9-byte count >= 2^31, incl. >= 2^63

Frames == [kind : Kinds, hdr : HeaderClasses, magic : MagicClasses, cmd : CmdClasses, len : LenClasses, sum : SumClasses, payload : PayloadClasses]

\* which class combinations can be built at all (a mutation of the payload is only meaningful on an otherwise valid frame)
Buildable(f) ==
  /\ (f.payload \in {"truncatedInside", "countInflated", "countHuge"} => f.kind \notin EmptyPayloadKinds)
  /\ (f.payload \in {"countInflated", "countHuge"} => f.kind \in CountedKinds)
  /\ (f.payload # "valid" => (f.hdr = "full" /\ f.magic = "ok" /\ f.cmd = "known" /\ f.len = "exact" /\ f.sum = "ok"))
  /\ (f.hdr = "short" => (f.magic = "ok" /\ f.cmd = "known" /\ f.len = "exact" /\ f.sum = "ok"))
  /\ (f.len = "declaredShorter" => f.kind \notin EmptyPayloadKinds)

\* the parser, stage by stage
Read(f) ==
  CASE f.hdr = "short"                 -> "reject"     \* io error
    [] f.len = "overGlobal"            -> "reject"
    [] f.magic # "ok"                  -> "reject"
    [] f.cmd \in {"nonutf8", "unknown", "nulsplice"} -> "reject"
    [] f.len = "overType"              -> "reject"
    [] f.len = "declaredLonger"        -> "reject"     \* unexpected EOF while reading the payload
    [] f.sum = "bad"                   -> "reject"
    [] f.len = "declaredShorter"       -> "reject"     \* checksum is over the declared prefix: mismatch
    [] f.payload = "valid"             -> "accept"
    [] f.kind \in IgnoredPayloadKinds  -> "any"        \* payload deliberately not interpreted
    [] f.kind = "version" /\ f.payload = "truncatedInside" -> "any"   \* trailing fields of version are optional on the wire
    \* in `reject` and `version` the "count" is the length of a string in the middle of the payload: a slightly longer one may
    \* still parse (the fields behind it shift); an error or a message are both allowed, the bounds on allocation stay
    [] f.kind \in {"reject", "version"} /\ f.payload = "countInflated" -> "any"
    [] f.payload \in {"truncatedInside", "countInflated", "countHuge"} -> "reject"
    [] OTHER                           -> "any"        \* trailing garbage / bit flips with a recomputed checksum

Table == {[f |-> f, expect |-> Read(f)] : f \in {x \in Frames : Buildable(x)}}

\* design-level properties of the parser
RoundTrip         == dummy = 0 => \A k \in Kinds : Read([kind |-> k, hdr |-> "full", magic |-> "ok", cmd |-> "known", len |-> "exact", sum |-> "ok", payload |-> "valid"]) = "accept"
HostileRejected   == dummy = 0 => \A r \in Table :
                        (r.f.magic # "ok" \/ r.f.sum = "bad" \/ r.f.cmd # "known" \/ r.f.len \in {"overType", "overGlobal"}) => r.expect = "reject"
\* the payload buffer is allocated only after BOTH length checks passed
AllocationBounded == dummy = 0 => \A r \in Table : r.f.len \in {"overType", "overGlobal"} => r.expect = "reject"

WInit == dummy = 0
WNext == UNCHANGED dummy
WSpec == WInit /\ [][WNext]_dummy
=============================================================================
