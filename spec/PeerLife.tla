------------------------------ MODULE PeerLife ------------------------------
(***************************************************************************)
(* C18, implementation grain: the life of a connection of the legacy       *)
(* engine from the socket to the server's books and back.                  *)
(*                                                                         *)
(*   remote messages --> peer.Peer negotiation (transports/p2p/peer)       *)
(*        version accepted --> OnVersion --> server.AddPeer: newPeers <- sp *)
(*        disconnect       --> peerDoneHandler:            donePeers <- sp *)
(*   server.peerHandler:  select { case sp := <-newPeers: handleAddPeerMsg  *)
(*                                 case sp := <-donePeers: handleDonePeerMsg}*)
(*                                                                         *)
(* Both channels are BUFFERED (MaxPeers) and Go's select takes any ready   *)
(* arm: the add of a peer and its done can be processed in either order.   *)
(* Admission.tla speaks about the sequence of handler calls; this module   *)
(* derives which sequences the server can produce, and from what.          *)
(*                                                                         *)
(* The negotiation is the code's: inbound reads version then verack;       *)
(* outbound (after sending its own version) makes two reads, each of which *)
(* takes a version or a verack ("it happens that it can be in any order"). *)
(* Findings names the listed defects the model FOLLOWS instead of the      *)
(* ideal rule (empty on a repaired tree; used for the sensitivity runs):   *)
(*   "dup-in-negotiation": the two outbound reads accept two versions      *)
(*                         (OnVersion and AddPeer run twice, the peer id   *)
(*                         changes) or two veracks (negotiated without a   *)
(*                         version);                                       *)
(*   "add-after-done":     handleAddPeerMsg books a peer that has already  *)
(*                         disconnected (its done was processed first, or  *)
(*                         is still queued and will not find it under the  *)
(*                         id it is booked with).                          *)
(***************************************************************************)
EXTENDS Integers, Sequences, FiniteSets, TLC

CONSTANTS Conns,      \* connection ids
          DirOf,      \* c -> "in" | "out"
          HostOf,     \* c -> host
          GroupOf,    \* host -> group
          MaxMsgs,    \* messages a remote sends on one connection
          MaxPerHost,
          Findings

\* versionOld: a version below the minimum protocol version; versionBad: one whose user agent the server refuses -
\* the connection is cut WITHOUT the peer being announced to the server.  The refused user agent is told so by a reject
\* message ("rejected"); a protocol that old cannot carry a reject message (they exist from 70002), it is just cut
Msgs == {"version", "verack", "other", "versionOld", "versionBad"}
Refused(m) == m \in {"versionOld", "versionBad"}

VARIABLES
  cs,       \* c -> [st, nver, ack, reads, nmsg]   st: idle | nego | ready | closed
  newQ,     \* the newPeers channel
  doneQ,    \* the donePeers channel
  entries,  \* the peer maps of peerState: {<<c, id>>}  (id = the peer's id when it was booked: it changes with every version)
  perHost,  \* connectionCount
  perGroup, \* outboundGroups
  obs       \* last event, for the replay

plvars == <<cs, newQ, doneQ, entries, perHost, perGroup, obs>>
Hosts  == {HostOf[c] : c \in Conns}
Groups == {GroupOf[h] : h \in Hosts}

PLInit ==
  /\ cs = [c \in Conns |-> [st |-> "idle", nver |-> 0, ack |-> FALSE, reads |-> 0, nmsg |-> 0]]
  /\ newQ = <<>> /\ doneQ = <<>> /\ entries = {}
  /\ perHost = [h \in Hosts |-> 0] /\ perGroup = [g \in Groups |-> 0]
  /\ obs = [ev |-> "init"]

Connect(c) ==
  /\ cs[c].st = "idle"
  /\ cs' = [cs EXCEPT ![c].st = "nego"]
  /\ obs' = [ev |-> "connect", c |-> c, dir |-> DirOf[c], host |-> HostOf[c]]
  /\ UNCHANGED <<newQ, doneQ, entries, perHost, perGroup>>

\* outcome of one remote message: "version" (accepted: OnVersion runs, the peer is announced to the server),
\* "ack", "none" (taken, no effect) or "fail" (the local side disconnects)
Ideal == Findings \cap {"dup-in-negotiation"} = {}
Outcome(c, m) ==
  LET s == cs[c] IN
  IF s.st = "nego" /\ DirOf[c] = "in" THEN
       IF s.reads = 0 THEN (IF m = "version" THEN "version" ELSE IF m = "versionBad" THEN "rejected" ELSE "fail")
       ELSE (IF m = "verack" THEN "ack" ELSE "fail")
  ELSE IF s.st = "nego" THEN   \* outbound: two reads, any order
       IF Refused(m) THEN (IF (s.nver > 0 /\ Ideal) \/ m = "versionOld" THEN "fail" ELSE "rejected")
       ELSE IF m = "version" THEN (IF s.nver > 0 /\ Ideal THEN "fail" ELSE "version")
       ELSE IF m = "verack" THEN (IF s.ack /\ Ideal THEN "fail" ELSE "ack")
       ELSE "fail"
  ELSE \* ready: any further version message is a duplicate
       IF m = "version" \/ Refused(m) THEN "fail"
       ELSE IF m = "verack" THEN (IF s.ack THEN "fail" ELSE "ack")
       ELSE "none"

Receive(c, m) ==
  /\ cs[c].st \in {"nego", "ready"} /\ cs[c].nmsg < MaxMsgs
  /\ LET o == Outcome(c, m)
         s == cs[c]
         r == IF s.st = "nego" THEN s.reads + 1 ELSE s.reads
         st2 == IF o \in {"fail", "rejected"} THEN "closed" ELSE IF s.st = "nego" /\ r = 2 THEN "ready" ELSE s.st
     IN /\ cs' = [cs EXCEPT ![c] = [st |-> st2, nver |-> IF o = "version" THEN s.nver + 1 ELSE s.nver,
                                    ack |-> (s.ack \/ o = "ack"), reads |-> r, nmsg |-> s.nmsg + 1]]
        /\ newQ' = IF o = "version" THEN Append(newQ, c) ELSE newQ
        /\ doneQ' = IF o \in {"fail", "rejected"} THEN Append(doneQ, c) ELSE doneQ
        /\ obs' = [ev |-> "msg", c |-> c, m |-> m, out |-> o]
  /\ UNCHANGED <<entries, perHost, perGroup>>

RemoteCloses(c) ==
  /\ cs[c].st \in {"nego", "ready"}
  /\ cs' = [cs EXCEPT ![c].st = "closed"]
  /\ doneQ' = Append(doneQ, c)
  /\ obs' = [ev |-> "close", c |-> c]
  /\ UNCHANGED <<newQ, entries, perHost, perGroup>>

\* one arm of the select: handleAddPeerMsg(head of newPeers)
ProcAdd ==
  /\ newQ # <<>>
  /\ LET c == Head(newQ)
         h == HostOf[c]
         gone == cs[c].st = "closed"
         ok == /\ perHost[h] < MaxPerHost
               /\ ~(gone /\ "add-after-done" \notin Findings)
     IN /\ newQ' = Tail(newQ)
        /\ entries' = IF ok THEN entries \cup {<<c, cs[c].nver>>} ELSE entries
        /\ perHost' = IF ok THEN [perHost EXCEPT ![h] = @ + 1] ELSE perHost
        /\ perGroup' = IF ok /\ DirOf[c] = "out" THEN [perGroup EXCEPT ![GroupOf[h]] = @ + 1] ELSE perGroup
        /\ obs' = [ev |-> "procadd", c |-> c, admitted |-> ok]
  /\ UNCHANGED <<cs, doneQ>>

\* the other arm: handleDonePeerMsg(head of donePeers)
ProcDone ==
  /\ doneQ # <<>>
  /\ LET c == Head(doneQ)
         h == HostOf[c]
         e == <<c, cs[c].nver>>
         found == e \in entries
     IN /\ doneQ' = Tail(doneQ)
        /\ entries' = entries \ {e}
        /\ perHost' = IF found THEN [perHost EXCEPT ![h] = @ - 1] ELSE perHost
        /\ perGroup' = IF found /\ DirOf[c] = "out" /\ cs[c].nver > 0 THEN [perGroup EXCEPT ![GroupOf[h]] = @ - 1] ELSE perGroup
        /\ obs' = [ev |-> "procdone", c |-> c, found |-> found]
  /\ UNCHANGED <<cs, newQ>>

PLNext == \/ \E c \in Conns : Connect(c) \/ RemoteCloses(c) \/ (\E m \in Msgs : Receive(c, m))
          \/ ProcAdd \/ ProcDone
PLSpec == PLInit /\ [][PLNext]_plvars

-----------------------------------------------------------------------------
Quiescent == newQ = <<>> /\ doneQ = <<>> /\ \A c \in Conns : cs[c].st \in {"idle", "closed"}
\* C18: counters return to zero when the peers have left - no ghost entry, no leaked counter
BooksReturnToZero ==
  Quiescent => entries = {} /\ (\A h \in Hosts : perHost[h] = 0) /\ (\A g \in Groups : perGroup[g] = 0)
\* a connection is booked at most once, and the counters say what the maps say
OneEntryPerConnection == \A c \in Conns : Cardinality({e \in entries : e[1] = c}) <= 1
CountersMatchMaps ==
  (newQ = <<>> /\ doneQ = <<>>) => \A h \in Hosts : perHost[h] = Cardinality({e \in entries : HostOf[e[1]] = h})
\* the protocol: a connection counts as negotiated only with exactly one version and a verack
ReadyMeansNegotiated == \A c \in Conns : cs[c].st = "ready" => cs[c].nver = 1 /\ cs[c].ack
OneVersionPerConnection == \A c \in Conns : cs[c].nver <= 1
NeverNegative == (\A h \in Hosts : perHost[h] >= 0) /\ (\A g \in Groups : perGroup[g] >= 0)
=============================================================================
