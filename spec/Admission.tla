----------------------------- MODULE Admission -----------------------------
(***************************************************************************)
(* C18 (first half): peer admission book-keeping of the legacy server      *)
(* (transports/p2p/server.go handleAddPeerMsg / handleDonePeerMsg /        *)
(* handleBanPeerMsg over peerState).                                       *)
(* Persistent peers (operator-configured) count towards the total and the  *)
(* outbound group counters but not towards the per-host counter, exactly   *)
(* as the code does (DESIGN.md C18).                                       *)
(***************************************************************************)
EXTENDS Integers, Sequences, FiniteSets, TLC

CONSTANTS Hosts, GroupOf, MaxPeers, MaxPerHost

VARIABLES peers,    \* set of admitted peers [id, dir, host]    dir \in {"in", "out", "pers"}
          banned,   \* hosts with a ban entry; banned[h] = TRUE while the ban has not elapsed
          nextId,
          ares      \* answer of the last operation

advars == <<peers, banned, nextId, ares>>
Dirs == {"in", "out", "pers"}

AdInit == peers = {} /\ banned = [h \in {} |-> TRUE] /\ nextId = 1 /\ ares = [op |-> "init"]

CountHost(h)  == Cardinality({p \in peers : p.host = h /\ p.dir # "pers"})
CountGroup(g) == Cardinality({p \in peers : GroupOf[p.host] = g /\ p.dir # "in"})
Total         == Cardinality(peers)
BanActive(h)  == h \in DOMAIN banned /\ banned[h]

Add(dir, h) ==
  LET ok == ~BanActive(h) /\ CountHost(h) < MaxPerHost /\ Total < MaxPeers IN
  /\ peers' = IF ok THEN peers \cup {[id |-> nextId, dir |-> dir, host |-> h]} ELSE peers
  \* an elapsed ban entry is dropped by the first admission attempt of that host
  /\ banned' = IF h \in DOMAIN banned /\ ~banned[h] THEN [x \in DOMAIN banned \ {h} |-> banned[x]] ELSE banned
  /\ nextId' = nextId + 1
  /\ ares' = [op |-> "add", id |-> nextId, admitted |-> ok]

Done(p) ==
  /\ p \in peers
  /\ peers' = peers \ {p}
  /\ ares' = [op |-> "done", id |-> p.id]
  /\ UNCHANGED <<banned, nextId>>

Ban(h) ==
  /\ banned' = [x \in DOMAIN banned \cup {h} |-> IF x = h THEN TRUE ELSE banned[x]]
  /\ ares' = [op |-> "ban", host |-> h]
  /\ UNCHANGED <<peers, nextId>>

\* the clock passes the end of every ban issued so far
Advance ==
  /\ \E h \in DOMAIN banned : banned[h]
  /\ banned' = [x \in DOMAIN banned |-> FALSE]
  /\ ares' = [op |-> "advance"]
  /\ UNCHANGED <<peers, nextId>>

AdNext == \/ \E d \in Dirs, h \in Hosts : Add(d, h)
          \/ \E p \in peers : Done(p)
          \/ \E h \in Hosts : Ban(h)
          \/ Advance
AdSpec == AdInit /\ [][AdNext]_advars

TotalAtMostMaxPeers == Total <= MaxPeers
PerHostAtMostLimit  == \A h \in Hosts : CountHost(h) <= MaxPerHost
NoAdmissionWhileBanned == [][(ares'.op = "add" /\ ares'.admitted) => \A p \in peers' \ peers : ~BanActive(p.host)]_advars
AdmittedAgainAfterExpiry ==
  [][\A h \in Hosts : (ares'.op = "add" /\ h \in DOMAIN banned /\ ~banned[h] /\ CountHost(h) < MaxPerHost /\ Total < MaxPeers
                       /\ nextId' = nextId + 1 /\ \E p \in peers' \ peers : p.host = h) => ares'.admitted]_advars
CountersReturnToZero == (peers = {}) => (\A h \in Hosts : CountHost(h) = 0 /\ CountGroup(GroupOf[h]) = 0)
=============================================================================
