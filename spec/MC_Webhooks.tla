---------------------------- MODULE MC_Webhooks ----------------------------
EXTENDS Webhooks, Json, SequencesExt
CONSTANTS MaxSteps, Emit
VARIABLE hist
mwvars == <<wvars, hist>>
UrlSeq == SetToSeq(Urls)
StateVec == [k \in 1 .. Len(UrlSeq) |-> [url |-> UrlSeq[k]] @@ hooks'[UrlSeq[k]]]
Log(rec) == hist' = Append(hist, rec @@ [res |-> wres', state |-> StateVec])
MWInit == WInit /\ hist = <<>>
MWNext ==
  /\ Len(hist) < MaxSteps
  /\ \/ \E u \in Urls, a \in AuthKinds : Register(u, a) /\ Log([op |-> "register", url |-> u, auth |-> a])
     \/ \E u \in Urls : Delete(u) /\ Log([op |-> "delete", url |-> u])
     \/ \E oc \in [Urls -> Outcomes] : (\A u \in Urls \ Called : oc[u] = "200") /\ Notify(oc) /\ Log([op |-> "notify", oc |-> [k \in 1 .. Len(UrlSeq) |-> oc[UrlSeq[k]]]])
     \/ (Len(hist) > 0 /\ hist[Len(hist)].op # "restart" /\ RestartW /\ Log([op |-> "restart"]))
MWSpec == MWInit /\ [][MWNext]_mwvars
WView == wvars
EmitInv == (Emit = "paths" /\ Len(hist) = MaxSteps) => PrintT(ToJson([hist |-> hist, maxtries |-> MaxTries]))
=============================================================================
