---------------------------- MODULE MC_PeerLife ----------------------------
EXTENDS PeerLife, Json, SequencesExt
CONSTANTS Emit, NConns, MaxSteps
ConnsV  == 1 .. NConns
DirV    == [c \in 1 .. NConns |-> IF c % 2 = 1 THEN "out" ELSE "in"]
HostV   == [c \in 1 .. NConns |-> 1]          \* one host: the per-host counter is shared
GroupV  == [h \in {1} |-> 1]
VARIABLE hist
mplvars == <<plvars, hist>>
Rec == obs' @@ [total |-> Cardinality(entries'), perhost |-> perHost'[1], pergroup |-> perGroup'[1],
                newq |-> Len(newQ'), doneq |-> Len(doneQ'),
                st |-> [c \in 1 .. NConns |-> cs'[c].st]]
MInit == PLInit /\ hist = <<>>
MNext == Len(hist) < MaxSteps /\ PLNext /\ hist' = Append(hist, Rec)
MSpec == MInit /\ [][MNext]_mplvars
View == plvars
Terminal == Quiescent /\ \A c \in Conns : cs[c].st = "closed"
EmitInv == (Emit = "paths" /\ Terminal) => PrintT(ToJson([hist |-> hist]))
=============================================================================
