------------------------------ MODULE Startup ------------------------------
(***************************************************************************)
(* database.Init as a state machine over the ON-DISK state.                *)
(*                                                                         *)
(* A start of the service (cmd/main.go -> database.Init) is not one step:  *)
(*   for every migration file k above the recorded schema version          *)
(*       golang-migrate records (k, dirty) ; runs the file ; records       *)
(*       (k, clean)                       -- three separate transactions   *)
(*   then the genesis header is inserted (ON CONFLICT DO NOTHING)          *)
(* and the process can be killed between any two of these.  The database   *)
(* the next start finds may therefore be at ANY schema version, clean or   *)
(* dirty, with or without the genesis header - and, being a database that  *)
(* was in use, may hold headers, tokens and webhooks written under an      *)
(* older schema.                                                           *)
(*                                                                         *)
(* What a start may do to the stored data is nothing: the abstract content *)
(* (which headers with which state, which tokens, which webhooks with      *)
(* which delivery status) is constant; only its representation changes     *)
(* (migration 2 turns isorphan into header_state, migration 7 renames      *)
(* columns).  A start that completes leaves the newest schema, clean, and  *)
(* the genesis header present.  A dirty database is refused (golang-       *)
(* migrate: "Dirty database version k. Fix and force version.") and stays  *)
(* refused: RefusedWhileDirty names that behaviour, it is not hidden.      *)
(*                                                                         *)
(* Bound to the code in direction A (harness op "startup"): the database   *)
(* file is brought to the modelled disk state with the repository's own    *)
(* migration files, filled under that version's schema, and the REAL       *)
(* database.Init is run on it; what the real repositories then read is     *)
(* compared with the constant content.                                     *)
(***************************************************************************)
EXTENDS Integers, FiniteSets, Sequences, TLC

CONSTANTS
  LastVer,       \* newest schema version = number of migration files
  MaxKills,   \* killed starts per behaviour
  MaxStops,   \* clean stop / start cycles per behaviour
  HdrIds      \* ids of the non-genesis headers an existing database may hold

\* the versions from which a table or a representation exists
StateCol == 2      \* header_state replaces isorphan / isconfirmed
TokensAt == 4
HooksAt  == 5

VARIABLES
  ver,      \* schema version recorded in schema_migrations (0: none)
  dirty,    \* its dirty flag
  applied,  \* number of migration files whose SQL has actually been executed (= ver unless dirty)
  gen,      \* the genesis header is stored
  hdrs,     \* id -> "-" | "L" | "S" | "O"     the other stored headers
  toks,     \* stored tokens
  hook,     \* "-" | "active" | "inactive"   the one webhook (inactive: errors counted up to its limit)
  pc,       \* down | migrate | seed | up
  nkill, nstop,
  out       \* observation of the last start: what it answered and what it left on disk

vars == <<ver, dirty, applied, gen, hdrs, toks, hook, pc, nkill, nstop, out>>
disk == <<ver, dirty, applied, gen, hdrs, toks, hook>>
content == <<hdrs, toks, hook>>

HdrStates(v) == IF v = 0 THEN {"-"} ELSE IF v < StateCol THEN {"-", "L", "O"} ELSE {"-", "L", "S", "O"}

\* every clean database a previous release may have left behind
Init ==
  /\ ver \in 0 .. LastVer /\ applied = ver /\ dirty = FALSE
  /\ hdrs \in [HdrIds -> HdrStates(ver)]
  /\ gen \in BOOLEAN /\ (ver = 0 => ~gen) /\ ((\E i \in HdrIds : hdrs[i] # "-") => gen)
  /\ toks \in (IF ver >= TokensAt THEN SUBSET {1} ELSE {{}})
  /\ hook \in (IF ver >= HooksAt THEN {"-", "active", "inactive"} ELSE {"-"})
  /\ pc = "down" /\ nkill = 0 /\ nstop = 0
  /\ out = [res |-> "init"]

Obs(r) == [res |-> r, ver |-> ver', dirty |-> dirty', applied |-> applied', gen |-> gen']

Start ==
  /\ pc = "down" /\ ~dirty
  /\ pc' = "migrate"
  /\ UNCHANGED <<disk, nkill, nstop, out>>

\* a dirty database is refused, and nothing is touched
RefusedWhileDirty ==
  /\ pc = "down" /\ dirty /\ out.res # "refused"
  /\ UNCHANGED <<disk, pc, nkill, nstop>>
  /\ out' = Obs("refused")

MarkDirty ==
  /\ pc = "migrate" /\ ~dirty /\ ver < LastVer
  /\ ver' = ver + 1 /\ dirty' = TRUE
  /\ UNCHANGED <<applied, gen, content, pc, nkill, nstop, out>>

\* the migration file itself: one transaction; the abstract content does not change
RunFile ==
  /\ pc = "migrate" /\ dirty /\ applied = ver - 1
  /\ applied' = ver
  /\ UNCHANGED <<ver, dirty, gen, content, pc, nkill, nstop, out>>

MarkClean ==
  /\ pc = "migrate" /\ dirty /\ applied = ver
  /\ dirty' = FALSE
  /\ UNCHANGED <<ver, applied, gen, content, pc, nkill, nstop, out>>

Migrated ==
  /\ pc = "migrate" /\ ~dirty /\ ver = LastVer
  /\ pc' = "seed"
  /\ UNCHANGED <<disk, nkill, nstop, out>>

\* EVERY start writes the genesis header when it is not there (and touches nothing when it is)
Seed ==
  /\ pc = "seed"
  /\ gen' = TRUE /\ pc' = "up"
  /\ UNCHANGED <<ver, dirty, applied, content, nkill, nstop>>
  /\ out' = Obs("started")

Kill ==
  /\ pc \in {"migrate", "seed"} /\ nkill < MaxKills
  /\ pc' = "down" /\ nkill' = nkill + 1
  /\ UNCHANGED <<disk, nstop>>
  /\ out' = Obs("killed")

Stop ==
  /\ pc = "up" /\ nstop < MaxStops
  /\ pc' = "down" /\ nstop' = nstop + 1
  /\ UNCHANGED <<disk, nkill, out>>

Next == Start \/ RefusedWhileDirty \/ MarkDirty \/ RunFile \/ MarkClean \/ Migrated \/ Seed \/ Kill \/ Stop
Spec == Init /\ [][Next]_vars /\ WF_vars(Start \/ MarkDirty \/ RunFile \/ MarkClean \/ Migrated \/ Seed)

-----------------------------------------------------------------------------
TypeOK ==
  /\ ver \in 0 .. LastVer /\ applied \in 0 .. LastVer /\ dirty \in BOOLEAN /\ gen \in BOOLEAN
  /\ pc \in {"down", "migrate", "seed", "up"}
AppliedFollowsVersion == IF dirty THEN applied \in {ver - 1, ver} ELSE applied = ver
UpMeansReady   == pc = "up" => ver = LastVer /\ ~dirty /\ applied = LastVer /\ gen
\* a table that does not exist yet holds nothing (the representation can carry the content)
Representable  == /\ (applied < TokensAt => toks = {}) /\ (applied < HooksAt => hook = "-")
                  /\ (applied < StateCol => \A i \in HdrIds : hdrs[i] # "S")
                  /\ (applied = 0 => ~gen /\ \A i \in HdrIds : hdrs[i] = "-")
ContentConstant == [][content' = content /\ (gen => gen')]_vars
\* whatever was killed: a database that is not dirty comes up; a dirty one is refused for good
ComesUpOrDirty == (<>[]dirty) \/ ([]<>(pc = "up")) \/ (<>[](pc = "down" /\ nstop = MaxStops))
DirtyIsForGood == [][dirty /\ pc = "down" => dirty']_vars
=============================================================================
