----------------------------- MODULE ChainSteps -----------------------------
(***************************************************************************)
(* Implementation-grain model of service.Chains.Add (chain_service.go):    *)
(* ONE ACTION PER REPOSITORY CALL, in the order the code makes them.  The  *)
(* three writes of a reorganisation (demote the old branch, promote the    *)
(* new one, insert the header) are three separate transactions, so a kill  *)
(* or a failing write between them is a reachable store.                   *)
(*                                                                         *)
(*   Exists -> LoadPrev -> [ByHeight] -> [GetTip] -> [StaleBack ->         *)
(*   LongestFrom -> UpdStale -> UpdLongest] -> Insert                      *)
(*                                                                         *)
(* Several submitter processes (experimental engine: one per peer; legacy  *)
(* engine: a single one) and reader processes interleave at this grain.    *)
(* AddMutex models the mutex that serialises Add (fix for D13).            *)
(* Faults (C05): Kill before any write, WriteErr on any write, then        *)
(* Restart and full Redelivery of everything submitted so far.             *)
(* The ideal specification is Chain.tla; Ideal(k) below folds its AddRow   *)
(* over the submitted headers and is what the outcome is compared with.    *)
(***************************************************************************)
EXTENDS Chain

CONSTANTS
  Procs,       \* submitter processes
  Readers,     \* reader processes (GetTip)
  AddMutex,    \* BOOLEAN: Add holds a mutex for its whole duration
  MaxKills,    \* how many kills may be injected
  MaxErrs      \* how many single-write errors may be injected

VARIABLES
  hdr,       \* id -> [w, root] of every header ever submitted (what the peers can deliver again)
  ps,        \* p -> local state of the Add in progress
  lock,      \* holder of the Add mutex or 0
  redo,      \* sequence of ids still to be redelivered after a restart
  acked,     \* ids whose Add returned "stored"
  nkill, nerr,
  down,      \* TRUE between a kill / a failed write and the restart
  seen,      \* r -> last tip observed by reader r (or -1)
  out        \* last completed operation: [p, id, res, fault] (observation for hist)

svars == <<cvars, hdr, ps, lock, redo, acked, nkill, nerr, down, seen, out>>

Idle == [pc |-> "idle", id |-> 0, par |-> 0, w |-> 0, root |-> 0, st |-> "-", ht |-> 0, cum |-> 0,
         stale |-> {}, demote |-> {}, nw |-> 0]

\* The very first start is itself a sequence of writes: database.Init migrates the schema and then inserts the genesis
\* header, in a transaction of its own.  A kill between the two leaves a migrated database with an EMPTY headers table:
\* the second initial state (the kill counts against MaxKills); the restart that follows has to write the genesis header.
SInit ==
  /\ \/ Init /\ nkill = 0 /\ down = FALSE
     \/ /\ MaxKills > 0
        /\ rows = [i \in {} |-> GenesisRow] /\ decl = (0 :> -1) /\ forbs = {} /\ next = 1 /\ result = "init" /\ devused = ""
        /\ nkill = 1 /\ down = TRUE
  /\ hdr = <<>>
  /\ ps = [p \in Procs |-> Idle]
  /\ lock = 0 /\ redo = <<>> /\ acked = {} /\ nerr = 0
  /\ seen = [r \in Readers |-> -1]
  /\ out = [p |-> 0, id |-> 0, res |-> "init", fault |-> "none"]

\* what the SQL returns when several rows qualify: the first in (height, state) index order = lowest id
FirstLAtOf(r, h) == LET S == {i \in DOMAIN r : r[i].st = "L" /\ r[i].height = h}
                    IN IF S = {} THEN -1 ELSE Min(S)
SqlTipOf(r) == FirstLAtOf(r, Max({r[i].height : i \in LongestOf(r)}))
FirstLAt(h) == FirstLAtOf(rows, h)
MaxLHeight  == Max({rows[i].height : i \in LongestOf(rows)})
SqlTip      == SqlTipOf(rows)

Set(p, f)   == ps' = [ps EXCEPT ![p] = f]
Done(p, id, res, fault) ==
  /\ out' = [p |-> p, id |-> id, res |-> res, fault |-> fault]
  /\ lock' = IF AddMutex THEN 0 ELSE lock

-----------------------------------------------------------------------------
\* Start of an Add: a fresh header (as in Chain.SubmitNew) or the next redelivered one
StartNew(p, par, w, root) ==
  /\ ~down /\ ps[p].pc = "idle" /\ redo = <<>>
  /\ (AddMutex => lock = 0)
  /\ next <= MaxN /\ ParentOK(next, par) /\ w \in Works /\ root \in RootChoices(next)
  /\ Set(p, [Idle EXCEPT !.pc = "exists", !.id = next, !.par = par, !.w = w, !.root = root])
  /\ next' = next + 1 /\ decl' = (next :> par) @@ decl
  /\ hdr' = Append(hdr, [w |-> w, root |-> root])
  /\ lock' = IF AddMutex THEN p ELSE lock
  /\ UNCHANGED <<rows, forbs, result, devused, redo, acked, nkill, nerr, down, seen, out>>

StartRedo(p) ==
  /\ ~down /\ ps[p].pc = "idle" /\ redo # <<>>
  /\ (AddMutex => lock = 0)
  /\ LET i == Head(redo) IN
       Set(p, [Idle EXCEPT !.pc = "exists", !.id = i, !.par = decl[i], !.w = hdr[i].w, !.root = hdr[i].root])
  /\ redo' = Tail(redo)
  /\ lock' = IF AddMutex THEN p ELSE lock
  /\ UNCHANGED <<cvars, hdr, acked, nkill, nerr, down, seen, out>>

\* GetHeaderByHash(hash): already stored?
Exists(p) ==
  /\ ~down /\ ps[p].pc = "exists"
  /\ IF ps[p].id \in DOMAIN rows
       THEN /\ Set(p, Idle) /\ Done(p, ps[p].id, "duplicate", "none")
       ELSE /\ Set(p, [ps[p] EXCEPT !.pc = "loadprev"]) /\ UNCHANGED <<out, lock>>
  /\ UNCHANGED <<cvars, hdr, redo, acked, nkill, nerr, down, seen>>

\* GetHeaderByHash(prev) + CreateHeader: height, cumulated work and the label inherited from the parent
LoadPrev(p) ==
  /\ ~down /\ ps[p].pc = "loadprev"
  /\ LET par   == ps[p].par
         known == par \in DOMAIN rows
         st0   == IF ~known \/ rows[par].st = "O" THEN "O" ELSE IF rows[par].st = "L" THEN "L" ELSE "S"
         ht    == IF known THEN rows[par].height + 1 ELSE 1
         cum   == (IF known THEN rows[par].cum ELSE 0) + ps[p].w
     IN Set(p, [ps[p] EXCEPT !.st = st0, !.ht = ht, !.cum = cum,
                             !.pc = CASE st0 = "O" -> "insert" [] st0 = "L" -> "byheight" [] OTHER -> "gettip"])
  /\ UNCHANGED <<cvars, hdr, lock, redo, acked, nkill, nerr, down, seen, out>>

\* GetHeaderByHeight(h.Height): is there another LONGEST header at my height?
ByHeightStep(p) ==
  /\ ~down /\ ps[p].pc = "byheight"
  /\ LET oh == FirstLAt(ps[p].ht) IN
       Set(p, [ps[p] EXCEPT !.pc = IF oh # -1 /\ oh # ps[p].id THEN "gettip" ELSE "insert"])
  /\ UNCHANGED <<cvars, hdr, lock, redo, acked, nkill, nerr, down, seen, out>>

\* GetTip + the work comparison (strictly more work wins)
GetTip(p) ==
  /\ ~down /\ ps[p].pc = "gettip"
  /\ LET t == SqlTip IN
       IF rows[t].cum < ps[p].cum
         THEN Set(p, [ps[p] EXCEPT !.st = "L", !.pc = "staleback"])
         ELSE Set(p, [ps[p] EXCEPT !.st = "S", !.pc = "insert"])
  /\ UNCHANGED <<cvars, hdr, lock, redo, acked, nkill, nerr, down, seen, out>>

\* GetStaleChainHeadersBackFrom(prev): every STALE ancestor (recursive CTE over previous_block)
StaleBack(p) ==
  /\ ~down /\ ps[p].pc = "staleback"
  /\ Set(p, [ps[p] EXCEPT !.stale = {a \in AncSelfOf(rows, ps[p].par) : rows[a].st = "S"}, !.pc = "longestfrom"])
  /\ UNCHANGED <<cvars, hdr, lock, redo, acked, nkill, nerr, down, seen, out>>

\* GetLongestChainHeadersFromHeight(lowest height of the stale part, or my own height)
LongestFrom(p) ==
  /\ ~down /\ ps[p].pc = "longestfrom"
  /\ LET lh == Min({ps[p].ht} \cup {rows[a].height : a \in ps[p].stale}) IN
       Set(p, [ps[p] EXCEPT !.demote = {i \in DOMAIN rows : rows[i].st = "L" /\ rows[i].height >= lh}, !.pc = "updstale"])
  /\ UNCHANGED <<cvars, hdr, lock, redo, acked, nkill, nerr, down, seen, out>>

Relab(S, lab) == [i \in DOMAIN rows |-> IF i \in S THEN [rows[i] EXCEPT !.st = lab] ELSE rows[i]]

\* write 1: UpdateState(old branch, STALE)            -- own transaction
UpdStale(p) ==
  /\ ~down /\ ps[p].pc = "updstale"
  /\ IF ps[p].demote = {} /\ "EmptyUpdateFails" \in Deviations
       THEN /\ Set(p, Idle) /\ Done(p, ps[p].id, "error:ChainUpdateFail", "none") /\ UNCHANGED rows
       ELSE /\ rows' = Relab(ps[p].demote, "S")
            /\ Set(p, [ps[p] EXCEPT !.pc = "updlongest", !.nw = 1]) /\ UNCHANGED <<out, lock>>
  /\ UNCHANGED <<decl, forbs, next, result, devused, hdr, redo, acked, nkill, nerr, down, seen>>

\* write 2: UpdateState(stale part of my branch, LONGEST_CHAIN)   -- own transaction
UpdLongest(p) ==
  /\ ~down /\ ps[p].pc = "updlongest"
  /\ IF ps[p].stale = {} /\ "EmptyUpdateFails" \in Deviations
       THEN /\ Set(p, Idle) /\ Done(p, ps[p].id, "error:ChainUpdateFail", "none") /\ UNCHANGED rows
       ELSE /\ rows' = Relab(ps[p].stale, "L")
            /\ Set(p, [ps[p] EXCEPT !.pc = "insert", !.nw = 2]) /\ UNCHANGED <<out, lock>>
  /\ UNCHANGED <<decl, forbs, next, result, devused, hdr, redo, acked, nkill, nerr, down, seen>>

\* last write: INSERT ... ON CONFLICT DO NOTHING                   -- own transaction
Insert(p) ==
  /\ ~down /\ ps[p].pc = "insert"
  /\ LET i == ps[p].id IN
       /\ rows' = IF i \in DOMAIN rows THEN rows
                  ELSE (i :> [parent |-> ps[p].par, work |-> ps[p].w, height |-> ps[p].ht, cum |-> ps[p].cum,
                              st |-> ps[p].st, root |-> ps[p].root]) @@ rows
       /\ acked' = acked \cup {i}
       /\ Set(p, Idle) /\ Done(p, i, ps[p].st, "none")
  /\ UNCHANGED <<decl, forbs, next, result, devused, hdr, redo, nkill, nerr, down, seen>>

-----------------------------------------------------------------------------
\* Faults.  A kill happens BEFORE the next write of some process (transaction boundary); everything
\* volatile is lost.  A failing write returns an error: Add answers with the corresponding code.
WritePc == {"updstale", "updlongest", "insert"}
Submitted == [k \in 1 .. next - 1 |-> k]    \* ids in submission order

Kill(p) ==
  /\ ~down /\ ps[p].pc \in WritePc /\ nkill < MaxKills
  /\ nkill' = nkill + 1 /\ down' = TRUE
  /\ ps' = [q \in Procs |-> Idle] /\ lock' = 0
  /\ out' = [p |-> p, id |-> ps[p].id, res |-> "killed", fault |-> "kill@" \o ToString(ps[p].nw + 1)]
  /\ UNCHANGED <<cvars, hdr, redo, acked, nerr, seen>>

WriteErr(p) ==
  /\ ~down /\ ps[p].pc \in WritePc /\ nerr < MaxErrs
  /\ nerr' = nerr + 1 /\ down' = TRUE
  /\ ps' = [q \in Procs |-> Idle] /\ lock' = 0
  /\ out' = [p |-> p, id |-> ps[p].id, fault |-> "err@" \o ToString(ps[p].nw + 1),
             res |-> IF ps[p].pc = "insert" THEN "error:HeaderSaveFail" ELSE "error:ChainUpdateFail"]
  /\ UNCHANGED <<cvars, hdr, redo, acked, nkill, seen>>

\* database.Init on the same file (every start writes the genesis header when it is not there; nothing else is touched);
\* then the peers deliver everything again, in order
RestartS ==
  /\ down /\ down' = FALSE
  /\ rows' = IF 0 \in DOMAIN rows THEN rows ELSE (0 :> GenesisRow) @@ rows
  /\ redo' = SelectSeq(Submitted, LAMBDA k : k \notin forbs)
  /\ out' = [p |-> 0, id |-> 0, res |-> "restart", fault |-> "none"]
  /\ UNCHANGED <<decl, forbs, next, result, devused, hdr, ps, lock, acked, nkill, nerr, seen>>

ReadTip(r) ==
  /\ ~down
  /\ seen' = [seen EXCEPT ![r] = SqlTip]
  /\ UNCHANGED <<cvars, hdr, ps, lock, redo, acked, nkill, nerr, down, out>>

-----------------------------------------------------------------------------
(* Properties *)
LSet      == LongestOf(rows)
\* (the table is empty only between a kill of the first start and the restart)
EmptyOnlyWhileDown == DOMAIN rows = {} => down
LValid    ==   \* the longest-chain labels form one parent-linked chain from genesis (C05, C15)
  \/ DOMAIN rows = {}
  \/ /\ \A i, j \in LSet : rows[i].height = rows[j].height => i = j
     /\ {rows[i].height : i \in LSet} = 0 .. MaxLHeight
     /\ \A i \in LSet : i = 0 \/ rows[i].parent \in LSet
NeverTwoLongestAtOneHeight == \A i, j \in LSet : rows[i].height = rows[j].height => i = j
ReaderSeesValidTip == \A r \in Readers : seen[r] = -1 \/ seen[r] \in DOMAIN rows
AckedNeverLost == acked \subseteq DOMAIN rows
ImmutableS == [][\A i \in DOMAIN rows : i \in DOMAIN rows' /\ SameExceptSt(rows[i], rows'[i])]_svars
RestartChangesNothing == [][out'.res = "restart" => /\ \A i \in DOMAIN rows : i \in DOMAIN rows' /\ rows'[i] = rows[i]
                                                     /\ DOMAIN rows' \subseteq DOMAIN rows \cup {0}]_svars

\* the ideal outcome: Chain.AddRow folded over the submitted headers in submission order
RECURSIVE IdealUpTo(_)
IdealUpTo(k) == IF k = 0 THEN (0 :> GenesisRow)
                ELSE LET r == IdealUpTo(k - 1) IN
                     IF k \in forbs THEN r ELSE AddRow(r, k, decl[k], hdr[k].w, hdr[k].root)
Quiescent == ~down /\ redo = <<>> /\ \A p \in Procs : ps[p].pc = "idle"
\* sequential ingestion (one submitter): whatever faults happened, after redelivery the store equals the
\* store of the uninterrupted run - same headers, same labels, same derived fields
RedeliveryRecovers ==
  (Quiescent /\ Cardinality(Procs) = 1) => rows = IdealUpTo(next - 1)
NotStuck == out.res \notin {"error:ChainUpdateFail", "error:HeaderSaveFail"} \/ out.fault # "none"

\* concurrent submitters: the outcome is the ideal outcome of SOME sequential order
Perms(S) == {f \in [1 .. Cardinality(S) -> S] : \A a, b \in 1 .. Cardinality(S) : f[a] = f[b] => a = b}
RECURSIVE FoldOrder(_, _)
FoldOrder(f, k) == IF k = 0 THEN (0 :> GenesisRow)
                   ELSE LET r == FoldOrder(f, k - 1) i == f[k] IN AddRow(r, i, decl[i], hdr[i].w, hdr[i].root)
LabelsOf(r) == [i \in DOMAIN r |-> <<r[i].st, r[i].height, r[i].cum>>]
SerialOutcome ==
  Quiescent => \E f \in Perms(1 .. next - 1) : LabelsOf(FoldOrder(f, next - 1)) = LabelsOf(rows)

-----------------------------------------------------------------------------
SNext ==
  \/ \E p \in Procs :
       \/ \E par \in 0 .. Never, w \in Works, root \in RootChoices(next) : StartNew(p, par, w, root)
       \/ StartRedo(p) \/ Exists(p) \/ LoadPrev(p) \/ ByHeightStep(p) \/ GetTip(p) \/ StaleBack(p)
       \/ LongestFrom(p) \/ UpdStale(p) \/ UpdLongest(p) \/ Insert(p) \/ Kill(p) \/ WriteErr(p)
  \/ RestartS
  \/ \E r \in Readers : ReadTip(r)

SSpec == SInit /\ [][SNext]_svars
=============================================================================
