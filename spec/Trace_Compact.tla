--------------------------- MODULE Trace_Compact ---------------------------
(* Direction B for C19: every vector recorded from domains.CompactToBig / CalculateWork / FastLog2Floor is checked    *)
(* against Compact.tla.  Consecutive "vec" lines are sorted by target by the recorder, so WorkAntitone is checked     *)
(* between neighbours.                                                                                                *)
EXTENDS Compact, Json

VARIABLE l
TraceLog == ndJsonDeserialize("compact_trace.ndjson")
Ev == TraceLog[l]

VecOk(e) == /\ WellFormed(e.t) /\ WellFormed(e.w)
            /\ Same(e.t, TargetAbs(e.hi, e.lo))
            /\ e.neg = TargetNeg(e.hi, e.lo)
            /\ WorkOk(e.hi, e.lo, e.w)
Antitone(a, b) ==   \* positive targets: t(a) <= t(b)  =>  w(a) >= w(b)
  (a.ev = "vec" /\ b.ev = "vec" /\ ~a.neg /\ ~b.neg /\ ~IsZero(a.t) /\ ~IsZero(b.t) /\ Leq(a.t, b.t)) => Leq(b.w, a.w)

Step == /\ l <= Len(TraceLog)
        /\ CASE Ev.ev = "vec"  -> VecOk(Ev) /\ (l > 1 => Antitone(TraceLog[l - 1], Ev))
             [] Ev.ev = "log2" -> Log2Ok(Ev.hi, Ev.lo, Ev.r)
             [] OTHER -> FALSE
        /\ l' = l + 1
TraceSpec == l = 1 /\ [][Step]_l
TraceAccepted == TLCGet("stats").diameter - 1 = Len(TraceLog)
=============================================================================
