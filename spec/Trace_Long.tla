----------------------------- MODULE Trace_Long -----------------------------
(* Direction B for C13 on long chains: locators and getheaders answers recorded from the real service on a chain of      *)
(* several thousand headers (with stale siblings and orphans at locator heights) are validated line by line against the  *)
(* operators of Locator.tla - the same ones Chain.tla's Locator and GetHeaders are defined by.  The recorder describes    *)
(* each request in the terms of the definition (heights of the locator entries it knows to be on the longest chain,       *)
(* height of the stop hash if on the longest chain) from its own knowledge of the chain it built.                          *)
EXTENDS Locator, Json, TLC

VARIABLE l
TraceLog == ndJsonDeserialize("long_trace.ndjson")
Ev == TraceLog[l]

SeqOf(first, n) == [j \in 1 .. n |-> first + j - 1]

\* {ev:"locator", tip, heights: [...], allLongest: bool}
LocatorOk(e) == e.heights = LocatorHeights(e.tip) /\ e.allLongest
\* {ev:"getheaders", tip, loc:[heights on the longest chain], stop:int, cap, first, count, linked, allLongest}
GetHeadersOk(e) ==
  LET want == GetHeadersH(e.tip, {e.loc[k] : k \in 1 .. Len(e.loc)}, e.stop, e.cap)
  IN /\ e.count = Len(want)
     /\ (e.count > 0 => (e.first = want[1] /\ e.linked /\ e.allLongest))
     /\ e.count <= e.cap

\* {ev:"ancestors", a, b, code, count, lo, hi, linked}: two longest-chain headers of heights a > b >= 1 on a chain whose
\* longest-chain header of height h has id h.  Chain.tla: Ancestors(a, b) = PathDown(a, b) = <<a, a-1, ..., b>> (C04)
AncestorsOk(e) == e.code = 200 /\ e.count = e.a - e.b + 1 /\ e.lo = e.b /\ e.hi = e.a /\ e.linked

Step == /\ l <= Len(TraceLog)
        /\ CASE Ev.ev = "locator"    -> LocatorOk(Ev)
             [] Ev.ev = "getheaders" -> GetHeadersOk(Ev)
             [] Ev.ev = "ancestors"  -> AncestorsOk(Ev)
             [] OTHER -> FALSE
        /\ l' = l + 1
TraceSpec == l = 1 /\ [][Step]_l
TraceAccepted == TLCGet("stats").diameter - 1 = Len(TraceLog)
=============================================================================
