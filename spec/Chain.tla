------------------------------- MODULE Chain -------------------------------
(***************************************************************************)
(* Abstract header store of block-headers-service.                         *)
(*                                                                         *)
(* State: the set of stored headers as a function  id -> row.  Ids are the *)
(* arrival order of distinct submitted headers (0 = genesis), so "every    *)
(* arrival order of every tree" is "every parent choice for ids 1..N".     *)
(* A parent may be an id that has not arrived yet (it arrives later or     *)
(* never): that is how "parent unknown when it arrived" is produced.       *)
(*                                                                         *)
(* Ingestion is the IDEAL rule of property C01 as one atomic action        *)
(* (Submit); the implementation-grain version lives in ChainSteps.tla and  *)
(* refines this one.  Every read endpoint is an operator over `rows`.      *)
(* Named deviations (genuine defects that are recorded, not repaired) are  *)
(* extra branches enabled only when their name is in Deviations.           *)
(***************************************************************************)
EXTENDS Integers, Sequences, FiniteSets, TLC, Locator

CONSTANTS
  MaxN,        \* non-genesis headers have ids 1..MaxN
  Works,       \* work classes (0 = non-positive target, k = k * 2^233 real work)
  SharedRoots, \* BOOLEAN: may a header carry the shared merkle-root class instead of its own
  MaxFuture,   \* how many headers may name a parent that is not stored on arrival
  MaxForb,     \* how many submitted headers may be on the forbidden list
  Deviations   \* names of implementation deviations this run follows

VARIABLES
  rows,    \* id -> [parent, work, height, cum, st, root]       the stored headers
  decl,    \* id -> parent, for every id ever submitted (stored or refused as forbidden)
  forbs,   \* ids that were submitted and refused because they are forbidden
  next,    \* next fresh id
  result,  \* answer to the last submission: "L" | "S" | "O" | "duplicate" | "forbidden" | "init"
  devused  \* name of the deviation the last step needed, or ""

cvars == <<rows, decl, forbs, next, result, devused>>

Never      == MaxN + 1      \* a parent hash that never arrives
SharedRoot == 100           \* the merkle-root class several headers may share
NoKey      == -1            \* "no lastEvaluatedKey"
UnknownKey == 999           \* a merkle root / hash no header carries
GenesisRow == [parent |-> -1, work |-> 0, height |-> 0, cum |-> 0, st |-> "L", root |-> 0]

Max(S) == CHOOSE x \in S : \A y \in S : y <= x
Min(S) == CHOOSE x \in S : \A y \in S : x <= y

-----------------------------------------------------------------------------
(* Pure functions over a rows value r (shared with ChainSteps)              *)

LongestOf(r) == {i \in DOMAIN r : r[i].st = "L"}
TipOf(r)     == CHOOSE i \in LongestOf(r) : \A j \in LongestOf(r) : r[j].height <= r[i].height

RECURSIVE AncSelfOf(_, _)
AncSelfOf(r, i) == IF i \notin DOMAIN r THEN {} ELSE {i} \cup AncSelfOf(r, r[i].parent)

NewRow(r, p, w, root) ==
  LET known  == p \in DOMAIN r
      orphan == ~known \/ r[p].st = "O"
      h      == IF known THEN r[p].height + 1 ELSE 1
      c      == (IF known THEN r[p].cum ELSE 0) + w
      tip    == TipOf(r)
      wins   == ~orphan /\ (c > r[tip].cum
                            \/ ("ZeroWorkTipExtension" \in Deviations /\ p = tip))
  IN [parent |-> p, work |-> w, height |-> h, cum |-> c, root |-> root,
      st |-> IF orphan THEN "O" ELSE IF wins THEN "L" ELSE "S"]

\* the deviation was needed: a connected header extends the tip without adding work
NeedsZeroWorkDev(r, p, w) ==
  /\ p \in DOMAIN r /\ r[p].st # "O" /\ p = TipOf(r) /\ w = 0
  /\ "ZeroWorkTipExtension" \in Deviations

Relabel(r, p) ==   \* the path to p becomes the longest chain
  LET anc == AncSelfOf(r, p)
  IN [i \in DOMAIN r |-> IF i \in anc THEN [r[i] EXCEPT !.st = "L"]
                         ELSE IF r[i].st = "L" THEN [r[i] EXCEPT !.st = "S"]
                         ELSE r[i]]

AddRow(r, i, p, w, root) ==
  LET n    == NewRow(r, p, w, root)
      base == IF n.st = "L" /\ p # TipOf(r) THEN Relabel(r, p) ELSE r
  IN [j \in DOMAIN r \cup {i} |-> IF j = i THEN n ELSE base[j]]

-----------------------------------------------------------------------------
Stored    == DOMAIN rows
Longest   == LongestOf(rows)
Tip       == TipOf(rows)
AncSelf(i) == AncSelfOf(rows, i)
Connected == {i \in Stored : rows[i].st # "O"}

\* ancestors-or-self over every DECLARED link (stored or refused), for acyclicity
RECURSIVE DeclAnc(_)
DeclAnc(i) == IF i \notin DOMAIN decl THEN {i} ELSE {i} \cup DeclAnc(decl[i])

Init ==
  /\ rows = (0 :> GenesisRow)
  /\ decl = (0 :> -1)
  /\ forbs = {}
  /\ next = 1
  /\ result = "init"
  /\ devused = ""

NFuture == Cardinality({i \in DOMAIN decl \ {0} : decl[i] > i})

RootChoices(i) == IF SharedRoots THEN {i, SharedRoot} ELSE {i}

\* parents a fresh header i may name: any stored header, any refused header, or an id that
\* has not arrived yet (bounded), never one of its own declared descendants
ParentOK(i, p) ==
  \/ p \in (Stored \cup forbs) /\ i \notin DeclAnc(p)
  \/ p > i /\ p <= Never /\ NFuture < MaxFuture
ParentChoices(i) == {p \in 0 .. Never : ParentOK(i, p)}

SubmitNew(p, w, root, isForb) ==
  LET i == next IN
  /\ i <= MaxN
  /\ ParentOK(i, p)
  /\ w \in Works
  /\ root \in RootChoices(i)
  /\ next' = i + 1
  /\ decl' = (i :> p) @@ decl
  /\ IF isForb
       THEN /\ Cardinality(forbs) < MaxForb
            /\ forbs' = forbs \cup {i}
            /\ result' = "forbidden" /\ devused' = ""
            /\ UNCHANGED rows
       ELSE /\ rows' = AddRow(rows, i, p, w, root)
            /\ result' = rows'[i].st
            /\ devused' = IF NeedsZeroWorkDev(rows, p, w) THEN "ZeroWorkTipExtension" ELSE ""
            /\ UNCHANGED forbs

Resubmit(i) ==
  /\ i \in (Stored \cup forbs) \ {0}
  /\ result' = IF i \in forbs THEN "forbidden" ELSE "duplicate"
  /\ devused' = ""
  /\ UNCHANGED <<rows, decl, forbs, next>>

\* close and reopen the database: nothing stored may change
Restart ==
  /\ result' = "restart" /\ devused' = ""
  /\ UNCHANGED <<rows, decl, forbs, next>>

Next ==
  \/ \E p \in ParentChoices(next), w \in Works, root \in RootChoices(next), f \in BOOLEAN :
        SubmitNew(p, w, root, f)
  \/ \E i \in 1 .. MaxN : Resubmit(i)
  \/ Restart

Spec == Init /\ [][Next]_cvars

-----------------------------------------------------------------------------
(* C01: longest chain = path to the best-work connected header, first seen wins *)

Best == CHOOSE b \in Connected : \A g \in Connected :
           rows[g].cum < rows[b].cum \/ (rows[g].cum = rows[b].cum /\ b <= g)

LongestIsPathToBest == Longest = AncSelf(Best)
TipIsBest           == Tip = Best
NoOrphanOnLongest   == \A i \in Longest : i \in Connected
LabelsTotal         == \A i \in Stored : rows[i].st \in {"L", "S", "O"}

\* a header is ORPHAN iff its parent was unknown or orphan when it arrived (ids = arrival order)
RECURSIVE ArrOrphan(_)
ArrOrphan(i) == IF i = 0 THEN FALSE
                ELSE LET p == rows[i].parent
                     IN p \notin Stored \/ p > i \/ ArrOrphan(p)
OrphanRule == \A i \in Stored : (rows[i].st = "O") <=> ArrOrphan(i)

ResultTotal == result \in {"init", "L", "S", "O", "duplicate", "forbidden", "restart"}
ForbiddenNeverStored == forbs \cap Stored = {}
DescendantsOfForbiddenAreOrphans ==
  \A i \in Stored \ {0} : (DeclAnc(i) \cap forbs # {}) => rows[i].st = "O"

StructValid ==
  /\ \A i, j \in Longest : rows[i].height = rows[j].height => i = j
  /\ {rows[i].height : i \in Longest} = 0 .. rows[Tip].height
  /\ \A i \in Longest : i = 0 \/ rows[i].parent \in Longest

\* C03: derived fields exact; nothing but the label ever changes; nothing disappears
KnownAtArrival(i) == rows[i].parent \in Stored /\ rows[i].parent < i
DerivedFieldsExact ==
  \A i \in Stored \ {0} :
     LET p == rows[i].parent IN
       IF KnownAtArrival(i)
         THEN rows[i].height = rows[p].height + 1 /\ rows[i].cum = rows[p].cum + rows[i].work
         ELSE rows[i].height = 1 /\ rows[i].cum = rows[i].work

SameExceptSt(a, b) == [a EXCEPT !.st = "x"] = [b EXCEPT !.st = "x"]
Immutable == [][\A i \in DOMAIN rows : i \in DOMAIN rows' /\ SameExceptSt(rows[i], rows'[i])]_cvars
ResubmitChangesNothing == [][result' \in {"duplicate", "forbidden", "restart"} => rows' = rows]_cvars

-----------------------------------------------------------------------------
(* Reads (C02 C04 C08 C13).  Each is a pure operator over rows.            *)

AtHeight(h) == {i \in Longest : rows[i].height = h}
TipH        == rows[Tip].height

\* a header all of whose ancestor links have consistent heights; queries that involve a header
\* whose parent arrived after it (height restarts at 1) are not asserted (see DESIGN.md C04)
RECURSIVE Regular(_)
Regular(i) == IF i = 0 THEN TRUE
              ELSE LET p == rows[i].parent IN
                   IF p \notin Stored THEN TRUE
                   ELSE rows[i].height = rows[p].height + 1 /\ Regular(p)

ByHash(i) == IF i \in Stored THEN [ok |-> i, st |-> rows[i].st, ht |-> rows[i].height] ELSE [err |-> 404]

\* must \subseteq answer \subseteq may
ByHeight(h, n) ==
  LET win == {i \in Stored : rows[i].height >= h /\ rows[i].height <= h + n - 1}
  IN [must |-> win \cap Longest, may |-> win]

HasOpenChild(i) == \E c \in Stored : rows[c].parent = i /\ rows[c].st # "L"
Tips == {Tip} \cup {i \in Stored : rows[i].st # "L" /\ ~HasOpenChild(i)}

RECURSIVE PathDown(_, _)
PathDown(a, b) == IF a = b THEN <<b>> ELSE <<a>> \o PathDown(rows[a].parent, b)

Ancestors(a, b) ==
  IF a \notin Stored \/ b \notin Stored THEN [err |-> 400, code |-> "ErrHeaderWithGivenHashes"]
  ELSE IF ~Regular(a) \/ ~Regular(b)    THEN [any |-> TRUE]
  ELSE IF rows[b].height > rows[a].height THEN [err |-> 400, code |-> "ErrAncestorHashHigher"]
  ELSE IF a = b                         THEN [ok |-> <<>>]
  ELSE IF b \notin AncSelf(a)           THEN [err |-> 400, code |-> "ErrHeadersNotPartOfTheSameChain"]
  ELSE [ok |-> PathDown(a, b)]

CommonAncestor(S) ==   \* S a non-empty set of ids
  IF \E i \in S : i \notin Stored THEN [err |-> 404]
  ELSE IF \E i \in S : ~Regular(i) THEN [any |-> TRUE]
  ELSE LET m == Min({rows[i].height : i \in S})
           C == {x \in Stored : rows[x].height < m /\ \A i \in S : x \in AncSelf(i)}
       IN IF C = {} THEN [err |-> 4]        \* some 4xx: nothing lies strictly below
          ELSE [ok |-> CHOOSE x \in C : \A y \in C : rows[y].height <= rows[x].height]

\* C02
Verdict(root, h, excess) ==
  IF \E i \in AtHeight(h) : rows[i].root = root
    THEN [v |-> "CONFIRMED", id |-> CHOOSE i \in AtHeight(h) : rows[i].root = root]
  ELSE IF h > TipH /\ h - TipH <= excess THEN [v |-> "UNABLE_TO_VERIFY", id |-> -1]
  ELSE [v |-> "INVALID", id |-> -1]
Sev(v) == CASE v = "CONFIRMED" -> 0 [] v = "UNABLE_TO_VERIFY" -> 1 [] OTHER -> 2
Verify(items, excess) ==   \* items: sequence of <<root, height>>
  LET vs  == [k \in 1 .. Len(items) |-> Verdict(items[k][1], items[k][2], excess)]
      mx  == Max({0} \cup {Sev(vs[k].v) : k \in 1 .. Len(items)})
  IN [state |-> CASE mx = 0 -> "CONFIRMED" [] mx = 1 -> "UNABLE_TO_VERIFY" [] OTHER -> "INVALID",
      items |-> vs]


\* C02: verdicts are exact functions of the longest chain, and they track reorganisations
VerdictsExact ==
  \A i \in Stored : \A ex \in {0, 1} :
     LET v == Verdict(rows[i].root, rows[i].height, ex).v IN
       /\ (i \in Longest => v = "CONFIRMED")
       /\ (v = "CONFIRMED" => \E j \in Longest : rows[j].height = rows[i].height /\ rows[j].root = rows[i].root)
       /\ Verdict(UnknownKey, TipH + 1, ex).v = (IF ex >= 1 THEN "UNABLE_TO_VERIFY" ELSE "INVALID")
       /\ Verdict(UnknownKey, TipH, ex).v = "INVALID"
VerdictOn(r, root, h) == \E i \in LongestOf(r) : r[i].height = h /\ r[i].root = root
VerdictsTrackChain ==
  [][\A i \in DOMAIN rows :
        /\ (rows[i].st = "L" /\ rows'[i].st # "L" /\ ~VerdictOn(rows', rows[i].root, rows[i].height)
               => Verdict(rows[i].root, rows[i].height, 0).v = "CONFIRMED")
        /\ (rows[i].st # "L" /\ rows'[i].st = "L" => VerdictOn(rows', rows[i].root, rows[i].height))]_cvars

\* C08  (keys are merkle-root classes; meaningful when roots are pairwise distinct)
RootAt(h)      == rows[CHOOSE i \in AtHeight(h) : TRUE].root
HoldersOf(key) == {i \in Stored : rows[i].root = key}
RECURSIVE AscFrom(_, _)
AscFrom(h, n) == IF n <= 0 \/ h > TipH THEN <<>> ELSE <<h>> \o AscFrom(h + 1, n - 1)
MerklePage(n, key) ==
  IF key # NoKey /\ HoldersOf(key) = {}                              THEN [err |-> 404]
  ELSE IF key # NoKey /\ \A i \in HoldersOf(key) : rows[i].st # "L" THEN [err |-> 409]
  ELSE LET from == IF key = NoKey THEN -1
                   ELSE rows[CHOOSE i \in HoldersOf(key) : rows[i].st = "L"].height
           hs   == AscFrom(from + 1, n)
       IN [content |-> [j \in 1 .. Len(hs) |-> <<RootAt(hs[j]), hs[j]>>],
           last    |-> IF hs = <<>> \/ hs[Len(hs)] = TipH THEN NoKey ELSE RootAt(hs[Len(hs)]),
           total   |-> TipH]

RECURSIVE WalkFrom(_, _, _)
WalkFrom(n, key, fuel) ==   \* concatenated content of the pages from key on
  LET pg == MerklePage(n, key)
  IN IF fuel = 0 \/ pg.last = NoKey THEN pg.content
     ELSE pg.content \o WalkFrom(n, pg.last, fuel - 1)
LongestRootsAsc == [h \in 1 .. TipH + 1 |-> <<RootAt(h - 1), h - 1>>]
DistinctRoots   == \A i, j \in Stored : rows[i].root = rows[j].root => i = j
WalkCoversLongestOnce ==
  DistinctRoots => \A n \in 1 .. TipH + 3 : WalkFrom(n, NoKey, TipH + 2) = LongestRootsAsc
PagesBounded ==
  DistinctRoots => \A n \in 0 .. TipH + 3 : \A k \in {NoKey} \cup {rows[i].root : i \in Longest} :
                      Len(MerklePage(n, k).content) <= n

\* C08: a walk in progress survives growth of the tip between two pages: every key handed out before
\* stays valid and the page after it only grows
WalkSurvivesTipGrowth ==
  [][(DistinctRoots' /\ Longest \subseteq LongestOf(rows')) =>
        \A k \in {rows[i].root : i \in Longest} : \A n \in 1 .. 3 :
           LET a == MerklePage(n, k)
               b == MerklePage(n, k)'
           IN /\ "err" \notin DOMAIN b
              /\ Len(a.content) <= Len(b.content)
              /\ \A j \in 1 .. Len(a.content) : a.content[j] = b.content[j]]_cvars

\* C13
IdAt(h)  == CHOOSE i \in AtHeight(h) : TRUE
Locator  == LET hs == LocatorHeights(TipH) IN [k \in 1 .. Len(hs) |-> IdAt(hs[k])]

LocatorShape ==
  LET L == Locator IN
  /\ L[1] = Tip /\ L[Len(L)] = 0
  /\ \A k \in 1 .. Len(L) : L[k] \in Longest
  /\ \A k \in 1 .. Len(L) - 1 : rows[L[k]].height > rows[L[k + 1]].height

\* loc: set of ids (stored or not); stop: an id, or -1 for the zero hash
GetHeaders(loc, stop, cap) ==
  LET known == stop \in Longest
                 /\ (rows[stop].height > 0 \/ "StopAtGenesis" \notin Deviations)
      hs    == GetHeadersH(TipH, {rows[i].height : i \in Longest \cap loc}, IF known THEN rows[stop].height ELSE -1, cap)
  IN [j \in 1 .. Len(hs) |-> IdAt(hs[j])]

GetHeadersIsNextSegment ==   \* sanity of the operator itself on every reachable store
  \A stop \in Stored \cup {-1} : \A l \in Stored \cup {Never} :
    LET g == GetHeaders({l}, stop, 3) IN
      /\ Len(g) <= 3
      /\ \A k \in 1 .. Len(g) : g[k] \in Longest
      /\ \A k \in 1 .. Len(g) - 1 : rows[g[k + 1]].parent = g[k]
      /\ (Len(g) > 0 /\ stop \in Longest => rows[g[Len(g)]].height <= rows[stop].height)
=============================================================================
