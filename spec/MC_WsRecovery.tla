--------------------------- MODULE MC_WsRecovery ---------------------------
EXTENDS WsRecovery, Json
CONSTANTS Emit
VARIABLE hist
mwsvars == <<wsvars, hist>>
Rec == wobs' @@ [recv |-> recv', online |-> online', told |-> told']
MWInit == WsInit /\ hist = <<>>
MWNext == WsNext /\ hist' = Append(hist, Rec)
MWSpec == MWInit /\ [][MWNext]_mwsvars
Terminal == pubs = MaxPub /\ online
EmitInv == (Emit = "paths" /\ Terminal) => PrintT(ToJson([hist |-> hist]))
=============================================================================
