----------------------------- MODULE MC_Notify -----------------------------
EXTENDS Notify
ModeV == [c \in Channels |-> CASE c = "ws" -> "error" [] c = "hook" -> "block" [] c = "slow" -> "slow" [] OTHER -> "ok"]
=============================================================================
