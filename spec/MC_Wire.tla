------------------------------ MODULE MC_Wire ------------------------------
EXTENDS Wire, Json, SequencesExt
EmitInv == dummy = 0 => PrintT(ToJson([rows |-> SetToSeq(Table)]))
=============================================================================
