------------------------------ MODULE MC_Sync ------------------------------
(* Model-checking / generation harness for Sync.tla.                        *)
(* Block universe: honest chain 1..H, fork branch H+1..H+F leaving the      *)
(* honest chain after height ForkAt.  Lock-step behaviours (an environment  *)
(* event, then the manager drains its queue) are logged in hist with the    *)
(* messages the service must send and the store it must hold.               *)
EXTENDS Sync, Json, SequencesExt

CONSTANTS H, F, ForkAt, F2, ForkAt2, CpHs, MaxEnv, Emit, MaxConnects, MaxRestarts, MaxAsks, MaxRaw, Scenario

\* honest chain 1..H; a branch H+1..H+F leaving it after height ForkAt; optionally a second branch H+F+1..H+F+F2 after ForkAt2
ParV == [b \in 1 .. (H + F + F2) |-> IF b <= H THEN b - 1 ELSE IF b = H + 1 THEN ForkAt
                                       ELSE IF b <= H + F THEN b - 1 ELSE IF b = H + F + 1 THEN ForkAt2 ELSE b - 1]
CpsV == {h \in CpHs : h <= H}        \* checkpoints are honest-chain blocks (block id = height on the honest chain)

VARIABLES hist, nenv, script, knownOnly, dropped,    \* dropped: an inv was dropped by handleInvMsg's "not the sync peer and not current" rule
          chose      \* a manager step picked a new sync peer among SEVERAL candidates (the code picks at random)
msyvars == <<syvars, hist, nenv, dropped, knownOnly, script, chose>>   \* knownOnly: a headers reply brought no new longest-chain header ("do nothing")

NB == H + F + F2
StV == [k \in 1 .. (NB + 1) |-> IF (k - 1) \in DOMAIN rows' THEN rows'[k - 1].st ELSE "-"]
BestOff == LET off == {nd'[p].best : p \in {q \in Peers : nd'[q].conn}} IN
             IF off = {} THEN -1 ELSE CHOOSE b \in off : \A c \in off : HOf(c) <= HOf(b)
Obs == [sent |-> lastSent', tip |-> TipOf(rows'), st |-> StV, sync |-> syncPeer', quiet |-> (mq' = <<>>),
        bestoff |-> BestOff, banned |-> SetToSeq(ban')]

\* a script (chosen by the driver) fixes the KIND of every environment event; TLC enumerates who, what and how.  <<>> = free
Scripts == {<<>>}
MSyInit == SyInit /\ hist = <<>> /\ nenv = 0 /\ dropped = FALSE /\ knownOnly = FALSE /\ script \in Scripts /\ chose = FALSE

\* scenario constraints keep the replay deterministic and inside the property's premises:
\*  - at most one sync-peer candidate can be chosen at any time (the code picks randomly among several)
DeterministicChoice == \A r \in {rows} : Cardinality(Candidates(pk, rows)) <= 1 \/ syncPeer # 0

NConn == Cardinality({k \in 1 .. Len(hist) : hist[k].kind = "env" /\ hist[k].op = "connect"})
NRst  == Cardinality({k \in 1 .. Len(hist) : hist[k].kind = "env" /\ hist[k].op = "restart"})
NRaw  == Cardinality({k \in 1 .. Len(hist) : hist[k].kind = "env" /\ hist[k].op = "reply" /\ "raw" \in DOMAIN hist[k]})
NAsk  == Cardinality({k \in 1 .. Len(hist) : hist[k].kind = "env" /\ hist[k].op = "ask"})
SeqSet(q) == {q[k] : k \in 1 .. Len(q)}
\* what a node asks with: from genesis, from its own tip, from its tip and a block the service cannot know
AskLocs(p) == {<<0>>, <<nd[p].best, 0>>, <<NB + 7, nd[p].best>>}
AskStops(p) == {-1} \cup ({nd[p].best} \ {0})     \* a stop at genesis is the listed finding D9 of C13, not asked here
Kind(k) == script = <<>> \/ (nenv < Len(script) /\ script[nenv + 1] = k)
EnvBound == IF script = <<>> THEN MaxEnv ELSE Len(script)
LogEnv(rec) == hist' = Append(hist, rec @@ [kind |-> "env"]) /\ nenv' = nenv + 1 /\ UNCHANGED <<dropped, knownOnly, script, chose>>
Pending == {q \in Peers : nd[q].conn /\ nq[q] # <<>>}
\* phase 2: after the MaxEnv environment events every connected node keeps answering (lowest id first) until nothing is asked
MDrain ==
  /\ mq = <<>> /\ nenv >= EnvBound /\ Pending # {}
  /\ LET p == Min(Pending) IN NodeReply(p) /\ hist' = Append(hist, [op |-> "reply", p |-> p, ids |-> ReplyIds(p, Head(nq[p])), kind |-> "env"])
  /\ UNCHANGED <<nenv, dropped, knownOnly, script, chose>>

MEnv ==
  /\ mq = <<>> /\ nenv < EnvBound
  /\ \/ \E p \in Peers, b \in {0} \cup (1 .. NB) :
          /\ NConn < MaxConnects /\ Kind("connect")
          /\ \/ Connect(p, b) /\ LogEnv([op |-> "connect", p |-> p, b |-> b, banned |-> FALSE])
             \/ ConnectBanned(p, b) /\ LogEnv([op |-> "connect", p |-> p, b |-> b, banned |-> TRUE])
     \/ \E p \in Peers : Kind("reply") /\ NodeReply(p) /\ LogEnv([op |-> "reply", p |-> p, ids |-> ReplyIds(p, Head(nq[p]))])
     \/ \E p \in Peers : /\ Kind("rawreply") /\ NRaw < MaxRaw /\ nq[p] # <<>> /\ ReplyIdsRaw(p, Head(nq[p])) # ReplyIds(p, Head(nq[p]))
                          /\ NodeReplyRaw(p) /\ LogEnv([op |-> "reply", p |-> p, ids |-> ReplyIdsRaw(p, Head(nq[p])), raw |-> TRUE])
     \/ \E p \in Peers : Kind("close") /\ NodeClose(p) /\ LogEnv([op |-> "close", p |-> p])
     \/ \E p \in Peers, b \in 1 .. NB, how \in {"inv", "headers"} :
          /\ Par[b] = nd[p].best        \* the node's chain grows by one block
          /\ Kind("announce")
          /\ NodeAnnounce(p, b, how) /\ LogEnv([op |-> "announce", p |-> p, b |-> b, how |-> how])
     \/ (Kind("restart") /\ NRst < MaxRestarts /\ RestartSrv /\ LogEnv([op |-> "restart"]))
     \/ \E p \in Peers : \E l \in AskLocs(p), sp \in AskStops(p) :
          /\ Kind("ask") /\ NAsk < MaxAsks /\ NodeAsk(p)
          /\ LogEnv([op |-> "ask", p |-> p, loc |-> l, stop |-> sp, served |-> Served(SeqSet(l), sp)])
InvDropped == LET m == Head(mq) IN m.t = "inv" /\ pk[m.p].known /\ m.p # syncPeer /\ ~MgrCurrent
\* handleHeadersMsg: "If all the headers received where rejected or already in the database, don't request more headers
\* from that peer" - finalHash stays nil whenever the batch held no header that ended on the longest chain.  This is the
\* statement's own carve-out ("the implementation stops asking a peer whose reply contained no longest-chain header").
KnownOnlyReply == LET m == Head(mq) IN
  /\ m.t = "hdrs" /\ pk[m.p].known /\ hf /\ m.ids # <<>>
  /\ LET res == Ingest(rows, m.ids, 1, [rows |-> rows, final |-> 0, gotCp |-> FALSE, stop |-> ""], nextCp)
     IN res.stop = "" /\ res.final = 0
MMgr == MgrStep /\ hist' = Append(hist, [kind |-> "mgr"] @@ Obs) /\ UNCHANGED <<nenv, script>> /\ dropped' = (dropped \/ InvDropped)
        /\ knownOnly' = (knownOnly \/ KnownOnlyReply)
        \* the new sync peer was one of several candidates (the one chosen is still among them afterwards)
        /\ chose' = (chose \/ (syncPeer' # syncPeer /\ syncPeer' # 0 /\ Cardinality(Candidates(pk', rows')) >= 2))

MSyNext == MMgr \/ MEnv \/ MDrain
MSySpec == MSyInit /\ [][MSyNext]_msyvars /\ WF_msyvars(MMgr)
\* everything that guards an action must be in the view, or TLC merges states with different futures
SyView == <<syvars, nenv, NConn, NRst, NAsk, NRaw, dropped, knownOnly, script, chose>>

\* random choice among several candidates: only single-candidate situations are generated for replay
\* (the state test alone misses the sync peer LEAVING while two other candidates are connected - three-node families)
ChoiceConstraint == ~chose /\ (Cardinality(Candidates(pk, rows)) <= 1 \/ syncPeer # 0 \/ mq = <<>>)

\* reachability witness (must be VIOLATED by the families that are meant to exercise a banned host coming back)
NoBannedConnect == \A k \in 1 .. Len(hist) : (hist[k].kind = "env" /\ hist[k].op = "connect") => ~hist[k].banned
NoBanYet == ban = {}
Terminal == mq = <<>> /\ nenv >= EnvBound /\ Pending = {}
Scn == [par |-> [b \in 1 .. NB |-> ParV[b]], cps |-> SetToSeq(CpsV), cpEnabled |-> CpEnabled, forbid |-> SetToSeq(Forbid), cap |-> Cap, name |-> Scenario,
        findings |-> SetToSeq(Findings)]
StNow == [k \in 1 .. (NB + 1) |-> IF (k - 1) \in DOMAIN rows THEN rows[k - 1].st ELSE "-"]
OffNow == {nd[p].best : p \in {q \in Peers : nd[q].conn}}
BestNow == IF OffNow = {} THEN -1 ELSE CHOOSE b \in OffNow : \A c \in OffNow : HOf(c) <= HOf(b)
\* which known limitation of the single-sync-peer design explains a store that stays behind (known_findings.jsonl L1-L3)
\* C06's outcome, in the terms of the statement: every greatest-work chain offered by a connected node is stored, and the
\* tip reported has at least that work (all blocks here have work 1: work = height; an equal-work competitor may stay "S")
BestSet == {b \in OffNow : \A c \in OffNow : HOf(c) <= HOf(b)}
Conv == \A b \in BestSet : b = 0 \/ (b \in Stored /\ rows[Tip].height >= HOf(b))
\* precise causes, so that nothing hides behind a catch-all:
\*  O1 a block of the best chain offered is stored as an ORPHAN: it was announced by `headers` before its parent was
\*     known, and a stored header is never re-linked (resubmission changes nothing, C01), so the chain above it can never connect
\*  L3 the sync peer is connected and does not have (one of) the best chain(s) offered: it lags, or sits on another branch of
\*     equal height; the peer that has it is not asked while the sync peer stays
\*  L2 there is no sync peer although a node with the best chain is connected (it was struck from the candidates)
\*  L1 an inv of a peer that is not the sync peer was dropped while the service was not current (history flag `dropped`)
\*  carve-out: a reply without any header that lands on the longest chain (all known already because another peer was
\*     quicker, or all stale because a competing branch of equal work was stored first) ends the exchange with that peer
OrphanOnBest == \E b \in BestSet : \E x \in ChainOf(b) : x \in Stored /\ rows[x].st = "O"
Why == IF Conv THEN ""
       ELSE IF OrphanOnBest THEN "O1-orphaned-announcement"
       ELSE IF syncPeer # 0 /\ nd[syncPeer].conn /\ (\E b \in BestSet : b \notin ChainOf(nd[syncPeer].best)) THEN "L3-lagging-sync-peer"
       ELSE IF syncPeer = 0 THEN "L2-no-sync-candidate-left"
       ELSE IF dropped THEN "L1-announcement-not-followed"
       ELSE IF knownOnly THEN "carve-out:reply-without-longest-chain-header"
       ELSE "unexplained"
Final == [st |-> StNow, tip |-> Tip, bestoff |-> BestNow, best |-> SetToSeq(BestSet \ {0}), conv |-> Conv, banned |-> SetToSeq(ban), why |-> Why]
EmitInv == (Emit = "paths" /\ Terminal) => PrintT(ToJson([hist |-> hist, scn |-> Scn, final |-> Final]))
\* C06 on the specification: whenever the engine as designed ends behind the best chain offered, one of the listed
\* limitations explains it (any other way of not converging is a counter-example)
Excused == {"carve-out:reply-without-longest-chain-header"}
ConvergesOrListed == Terminal => (Why = "" \/ Why \in Findings \/ Why \in Excused)
=============================================================================
