SPECIFICATION MCSpec
CONSTANTS
  MaxN = 4
  Works = {0, 1, 2}
  SharedRoots = FALSE
  MaxFuture = 1
  MaxForb = 1
  Deviations = {}
  MaxSteps = 5
  MaxResub = 1
  MaxRestart = 0
  Emit = "none"
  QKinds = {}
VIEW StateView
INVARIANTS
  ResultTotal LabelsTotal OrphanRule StructValid DerivedFieldsExact NoOrphanOnLongest
  ForbiddenNeverStored DescendantsOfForbiddenAreOrphans LocatorShape GetHeadersIsNextSegment
  WalkCoversLongestOnce PagesBounded
PROPERTIES Immutable ResubmitChangesNothing
CHECK_DEADLOCK FALSE
