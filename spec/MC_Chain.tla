------------------------------ MODULE MC_Chain ------------------------------
(* Model-checking / generation harness for Chain.tla.                       *)
(*  - carries the history `hist` of steps with the expected answer and the  *)
(*    expected projection of the store after every step;                    *)
(*  - Emit = "paths"  : no VIEW, BFS enumerates every history; each maximal *)
(*    history is printed as one JSON line;                                  *)
(*  - Emit = "states" : VIEW hides hist, BFS visits every distinct store    *)
(*    once and prints a witness history plus the complete table of expected *)
(*    answers of the read endpoints selected by QKinds;                     *)
(*  - Emit = "none"   : property checking only.                             *)
EXTENDS Chain, Json, SequencesExt

CONSTANTS MaxSteps, MaxResub, MaxRestart, Emit, QKinds,
          StepQ      \* kinds of read answers recorded after EVERY step (reads interleaved with ingestion)

VARIABLES hist, nres, nrst,
          shape      \* <<>> = any parent; otherwise shape[i] is the parent of header i (a tree shape chosen by the driver)
mvars == <<cvars, hist, nres, nrst, shape>>
\* tree shapes to follow; a configuration may replace it (Shapes <- ShapesV of a generated module) to steer long
\* simulated histories towards deep trees (nested stale forks, long orphan chains) that uniform choices rarely build
Shapes == {<<>>}

-----------------------------------------------------------------------------
(* Expected-answer tables *)
Ids  == 0 .. Never
MaxH == Max({rows[i].height : i \in Stored})
Subsets3(S) == {T \in SUBSET S : Cardinality(T) \in 1 .. 3}

QByHash   == {[k |-> "byhash", a |-> i, r |-> ByHash(i)] : i \in Ids}
QByHeight == {[k |-> "byheight", a |-> <<h, n>>, r |-> ByHeight(h, n)] :
                  h \in (-1) .. (MaxH + 1), n \in {0, 1, 2, MaxH + 3}}
QTips     == {[k |-> "tips", a |-> 0, r |-> [tips |-> Tips, longest |-> Tip]]}
QAnc      == {[k |-> "ancestors", a |-> <<a, b>>, r |-> Ancestors(a, b)] : a \in Ids, b \in Ids}
QCommon   == {[k |-> "common", a |-> SetToSeq(S), r |-> CommonAncestor(S)] : S \in Subsets3(Ids)}

RootUniverse == {rows[i].root : i \in Stored} \cup {UnknownKey}
Pairs(ex)    == {<<rt, h>> : rt \in RootUniverse, h \in (-1) .. (TipH + ex + 2)}
QVerify ==
  UNION {  {[k |-> "verify", a |-> [excess |-> ex, items |-> <<pr>>], r |-> Verify(<<pr>>, ex)] : pr \in Pairs(ex)}
           \cup {[k |-> "verify", a |-> [excess |-> ex, items |-> SetToSeq(Pairs(ex))],
                  r |-> Verify(SetToSeq(Pairs(ex)), ex)]}
           \cup {LET ok == SetToSeq({pr \in Pairs(ex) : Verdict(pr[1], pr[2], ex).v # "INVALID"})
                 IN [k |-> "verify", a |-> [excess |-> ex, items |-> ok \o ok], r |-> Verify(ok \o ok, ex)]}
        : ex \in {0, 1, 3}}

QPages == {[k |-> "page", a |-> <<n, key>>, r |-> MerklePage(n, key)] :
              n \in 0 .. (TipH + 3), key \in {NoKey, UnknownKey} \cup {rows[i].root : i \in Stored}}

LocSets == {{}} \cup {{a} : a \in Ids} \cup {{a, b} : a \in Ids, b \in Ids} \cup {Stored}
QLoc    == {[k |-> "locator", a |-> 0, r |-> Locator]}
QGetH   == {[k |-> "getheaders", a |-> [loc |-> SetToSeq(l), stop |-> s], r |-> GetHeaders(l, s, 2000)] :
              l \in LocSets, s \in {-1} \cup Ids}


\* C17: export = the longest chain by height; import of the exported file, possibly corrupted in one row, with the newest
\* checkpoint at height cp.  Rows are numbered by height (row 0 = genesis).  Verdict per the property: malformed rows, a
\* missing checkpoint row, or a different hash at the checkpoint height refuse the import; anything else is accepted.
Malformed == {"badnumber", "shortrow", "longrow", "badhash", "negativenonce"}
Shifting  == {"changefield", "droprow", "duprow"}
ImportVerdict(cp, corr, row) ==
  IF corr = "none" THEN "accept"
  ELSE IF corr \in Malformed THEN "refuse"
  ELSE IF corr = "duprow" /\ row = cp THEN "accept"   \* the first copy still sits at the checkpoint height with the same hash
  ELSE IF row <= cp THEN "refuse"            \* the hash at the checkpoint height changes (or the row is gone)
  ELSE "accept"                              \* a self-consistent different chain above the checkpoint
ExportIds == [h \in 1 .. TipH + 1 |-> IdAt(h - 1)]
QExport == {[k |-> "export", a |-> 0, r |-> ExportIds]}
QImport == {[k |-> "import", a |-> [cp |-> cp, corr |-> co, row |-> rw], r |-> ImportVerdict(cp, co, rw)] :
              cp \in 1 .. TipH, co \in {"none"} \cup Malformed \cup Shifting, rw \in 0 .. TipH}

\* one homogeneous set per kind (TLC cannot compare answers of different shapes), concatenated
QTable ==
     (IF "c04" \in QKinds THEN SetToSeq(QByHash) \o SetToSeq(QByHeight) \o SetToSeq(QTips) \o SetToSeq(QAnc) \o SetToSeq(QCommon)
      ELSE <<>>)
  \o (IF "c02" \in QKinds THEN SetToSeq(QVerify) ELSE <<>>)
  \o (IF "c08" \in QKinds THEN SetToSeq(QPages) ELSE <<>>)
  \o (IF "c13" \in QKinds THEN SetToSeq(QLoc) \o SetToSeq(QGetH) ELSE <<>>)
  \o (IF "c17" \in QKinds THEN SetToSeq(QExport) \o (IF TipH >= 1 THEN SetToSeq(QImport) ELSE <<>>) ELSE <<>>)


\* the (smaller) table recorded after every step when StepQ is not empty
SQByHash == {[k |-> "byhash", a |-> i, r |-> ByHash(i)] : i \in 0 .. next}
SQVerify == {[k |-> "verify", a |-> [excess |-> 1, items |-> <<<<rows[i].root, rows[i].height>>>>],
              r |-> Verify(<<<<rows[i].root, rows[i].height>>>>, 1)] : i \in Stored}
SQPages  == {[k |-> "page", a |-> <<2, key>>, r |-> MerklePage(2, key)] : key \in {NoKey} \cup {rows[i].root : i \in Stored}}
SQGetH   == {[k |-> "getheaders", a |-> [loc |-> <<l>>, stop |-> -1], r |-> GetHeaders({l}, -1, 2000)] : l \in Stored}
StepTable ==
     (IF "c04" \in StepQ THEN SetToSeq(SQByHash) \o SetToSeq(QTips) ELSE <<>>)
  \o (IF "c02" \in StepQ THEN SetToSeq(SQVerify) ELSE <<>>)
  \o (IF "c08" \in StepQ THEN SetToSeq(SQPages) ELSE <<>>)
  \o (IF "c13" \in StepQ THEN SetToSeq(QLoc) \o SetToSeq(SQGetH) ELSE <<>>)

\* C08, a client walking the pages WHILE headers are ingested: the last request of every step fetches the whole list (its
\* last element is the tip of that moment), the first request of the next step continues from that element - which the
\* step in between may have turned stale (409) or left on the longest chain (the page that follows it)
WalkAll      == IF "c08" \in StepQ THEN <<[k |-> "page", a |-> <<TipH + 1, NoKey>>, r |-> MerklePage(TipH + 1, NoKey)]>> ELSE <<>>
WalkContinue == IF "c08" \in StepQ
                  THEN SetToSeq({[k |-> "page", a |-> <<2, key>>, r |-> MerklePage(2, key)'] : key \in {rows[Tip].root}})   \* key: the OLD tip's root
                  ELSE <<>>

-----------------------------------------------------------------------------
Snap(r, n, f(_)) == [k \in 1 .. n |-> IF (k - 1) \in DOMAIN r THEN f(r[k - 1]) ELSE -9]
SnapSt(r, n)     == [k \in 1 .. n |-> IF (k - 1) \in DOMAIN r THEN r[k - 1].st ELSE "-"]
GetH(x) == x.height
GetC(x) == x.cum

Obs == [st  |-> SnapSt(rows', next'), ht |-> Snap(rows', next', GetH),
        cum |-> Snap(rows', next', GetC), tip |-> TipOf(rows'),
        q   |-> IF StepQ = {} THEN <<>> ELSE WalkContinue \o StepTable' \o WalkAll']

MCInit == Init /\ hist = <<>> /\ nres = 0 /\ nrst = 0 /\ shape \in Shapes

MCSubmit ==
  /\ Len(hist) < MaxSteps
  /\ (shape = <<>> \/ next <= Len(shape))
  /\ \E p \in (IF shape = <<>> THEN ParentChoices(next) ELSE ParentChoices(next) \cap {shape[next]}),
        w \in Works, root \in RootChoices(next), f \in BOOLEAN :
       /\ SubmitNew(p, w, root, f)
       /\ hist' = Append(hist, [op |-> "add", id |-> next, parent |-> p, work |-> w, root |-> root,
                                forb |-> f, res |-> result', dev |-> devused'] @@ Obs)
  /\ UNCHANGED <<nres, nrst, shape>>

MCResubmit ==
  /\ Len(hist) < MaxSteps /\ nres < MaxResub
  /\ \E i \in 1 .. MaxN :
       /\ Resubmit(i)
       /\ hist' = Append(hist, [op |-> "resubmit", id |-> i, res |-> result', dev |-> ""] @@ Obs)
  /\ nres' = nres + 1 /\ UNCHANGED <<nrst, shape>>

MCRestart ==
  /\ Len(hist) < MaxSteps /\ nrst < MaxRestart /\ result # "restart" /\ next > 1
  /\ Restart
  /\ hist' = Append(hist, [op |-> "restart", res |-> "restart", dev |-> ""] @@ Obs)
  /\ nrst' = nrst + 1 /\ UNCHANGED <<nres, shape>>

MCNext == MCSubmit \/ MCResubmit \/ MCRestart
MCSpec == MCInit /\ [][MCNext]_mvars

StateView == cvars
RowsView  == <<rows, next>>

Terminal == Len(hist) = MaxSteps \/ (next > MaxN /\ nres = MaxResub /\ nrst = MaxRestart) \/ (shape # <<>> /\ next > Len(shape))

-----------------------------------------------------------------------------
EmitInv ==
  CASE Emit = "paths"  -> (Terminal => PrintT(ToJson([hist |-> hist])))
    [] Emit = "states" -> PrintT(ToJson([hist |-> hist, q |-> QTable]))
    [] Emit = "pathsq" -> (Terminal => PrintT(ToJson([hist |-> hist, q |-> QTable])))   \* long simulated histories with the final answer table
    [] OTHER -> TRUE
=============================================================================
