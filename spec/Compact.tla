------------------------------- MODULE Compact -------------------------------
(***************************************************************************)
(* C19: the compact ("bits") difficulty encoding, the work of a header and *)
(* the integer logarithm used to size block locators, as DEFINITIONS over  *)
(* arbitrary-precision naturals.                                           *)
(*   bits = exponent (8 bits) | sign (1 bit) | mantissa (23 bits)          *)
(*   |target| = mantissa * 256^(exponent-3)   (truncating for exponent<3)  *)
(*   work = floor(2^256 / (target+1)) for target > 0, else 0               *)
(* A 32-bit value is handled as two 16-bit halves (hi, lo).                *)
(***************************************************************************)
EXTENDS BigNat, TLC

RECURSIVE Pow(_, _)
Pow(b, e) == IF e = 0 THEN <<1>> ELSE MulSmall(Pow(b, e - 1), b)
RECURSIVE PowTab(_)
PowTab(e) == IF e = 0 THEN << <<1>> >> ELSE LET t == PowTab(e - 1) IN Append(t, MulSmall(t[e], 256))
PTab == PowTab(252)                              \* evaluated once by TLC
P256 == [e \in 0 .. 252 |-> PTab[e + 1]]
TwoTo256 == P256[32]
RECURSIVE IPow(_, _)
IPow(b, e) == IF e = 0 THEN 1 ELSE b * IPow(b, e - 1)      \* small results only

Exponent(hi) == hi \div 256
Negative(hi) == (hi \div 128) % 2 = 1
Mantissa(hi, lo) == (hi % 128) * 65536 + lo

\* |target| as a BigNat
TargetAbs(hi, lo) ==
  LET e == Exponent(hi) m == Mantissa(hi, lo) IN
    IF e <= 3 THEN FromInt(m \div IPow(256, 3 - e))
    ELSE Trim(Mul(FromInt(m), P256[e - 3]))
TargetNeg(hi, lo) == Negative(hi) /\ ~IsZero(TargetAbs(hi, lo))

\* the DEFINING inequality of floor(2^256/(t+1)); no division needed
WorkOk(hi, lo, w) ==
  LET t == TargetAbs(hi, lo) IN
    IF IsZero(t) \/ Negative(hi) THEN IsZero(w)
    ELSE LET d == Add(t, <<1>>) IN Leq(Mul(w, d), TwoTo256) /\ Lt(TwoTo256, Mul(Add(w, <<1>>), d))

\* floor(log2 n) for n = hi*65536 + lo >= 1
Log2Ok(hi, lo, r) ==
  IF hi > 0 THEN r >= 16 /\ r <= 31 /\ IPow(2, r - 16) <= hi /\ (r = 31 \/ hi < IPow(2, r - 15))
  ELSE r >= 0 /\ r <= 15 /\ IPow(2, r) <= lo /\ lo < IPow(2, r + 1)
=============================================================================
