----------------------------- MODULE MC_Config -----------------------------
EXTENDS Config, Json, SequencesExt
SetSeq(s) == SetToSeq(s)
EmitInv == dummy = 0 => PrintT(ToJson([precedence |-> SetToSeq({[type |-> r.type, srcs |-> SetToSeq(r.srcs), expect |-> r.expect] : r \in PrecedenceTable}),
                                        validation |-> SetToSeq(ValidationTable)]))
=============================================================================
