------------------------------ MODULE Locator ------------------------------
(* The arithmetic of block locators and getheaders answers, free of state (C13).  Chain.tla defines its Locator and     *)
(* GetHeaders through these operators; Trace_Long.tla validates answers recorded on chains of several thousand headers  *)
(* against the very same definitions.                                                                                   *)
EXTENDS Integers, Sequences, FiniteSets

RECURSIVE LocH(_, _, _)
LocH(h, step, len) ==    \* heights after an entry at height h when the locator already has len entries
  IF h = 0 THEN <<>>
  ELSE LET nh == IF h - step < 0 THEN 0 ELSE h - step
           ns == IF len > 10 THEN step * 2 ELSE step      \* "once 11 entries have been included, start doubling" - after the next height was taken
       IN <<nh>> \o LocH(nh, ns, len + 1)
LocatorHeights(t) == <<t>> \o LocH(t, 1, 1)

SetMax(S) == CHOOSE x \in S : \A y \in S : y <= x
SetMin(S) == CHOOSE x \in S : \A y \in S : x <= y

\* The heights answered to a getheaders on a longest chain 0..tipH:
\*   locHs  - heights of those locator entries that are ON the longest chain (any others are ignored)
\*   stopH  - height of the stop hash if it is on the longest chain, -1 otherwise (zero hash, unknown, stale, orphan)
\* the headers immediately following the highest such entry (from height 1 if none), up to the stop, at most cap;
\* a stop at or below the start yields nothing
GetHeadersH(tipH, locHs, stopH, cap) ==
  LET s  == SetMax({0} \cup locHs)
      e0 == IF stopH >= 0 THEN stopH ELSE s + cap
      e  == SetMin({e0, s + cap, tipH})
  IN IF e0 <= s \/ e <= s THEN <<>> ELSE [j \in 1 .. (e - s) |-> s + j]
=============================================================================
