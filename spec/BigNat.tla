------------------------------- MODULE BigNat -------------------------------
(* Arbitrary-precision naturals for TLC (whose integers are 32-bit): little-endian sequences of base-10^4 limbs,     *)
(* no leading zero limbs (zero is <<>>).  Only what Compact.tla needs: compare, add, multiply.                        *)
EXTENDS Integers, Sequences

B == 10000

RECURSIVE Trim(_)
Trim(a) == IF Len(a) = 0 THEN a ELSE IF a[Len(a)] = 0 THEN Trim(SubSeq(a, 1, Len(a) - 1)) ELSE a

RECURSIVE FromInt(_)
FromInt(n) == IF n = 0 THEN <<>> ELSE <<n % B>> \o FromInt(n \div B)        \* n < 2^31

Limb(a, i) == IF i <= Len(a) THEN a[i] ELSE 0

RECURSIVE AddC(_, _, _, _)
AddC(a, b, i, carry) ==
  IF i > Len(a) /\ i > Len(b) THEN (IF carry = 0 THEN <<>> ELSE <<carry>>)
  ELSE LET s == Limb(a, i) + Limb(b, i) + carry IN <<s % B>> \o AddC(a, b, i + 1, s \div B)
Add(a, b) == AddC(a, b, 1, 0)

RECURSIVE MulSmallC(_, _, _, _)
MulSmallC(a, k, i, carry) ==      \* k < B
  IF i > Len(a) THEN (IF carry = 0 THEN <<>> ELSE <<carry>>)
  ELSE LET s == a[i] * k + carry IN <<s % B>> \o MulSmallC(a, k, i + 1, s \div B)
MulSmall(a, k) == IF k = 0 THEN <<>> ELSE MulSmallC(a, k, 1, 0)

Shift(a, n) == IF Len(a) = 0 THEN a ELSE [i \in 1 .. n |-> 0] \o a

RECURSIVE MulR(_, _, _)
MulR(a, b, j) == IF j > Len(b) THEN <<>> ELSE Add(Shift(MulSmall(a, b[j]), j - 1), MulR(a, b, j + 1))
\* iterate over the SHORTER operand (TLC builds sequences by copying)
Mul(a, b) == IF Len(a) = 0 \/ Len(b) = 0 THEN <<>> ELSE IF Len(a) < Len(b) THEN MulR(b, a, 1) ELSE MulR(a, b, 1)

RECURSIVE CmpFrom(_, _, _)
CmpFrom(a, b, i) == IF i = 0 THEN 0 ELSE IF a[i] < b[i] THEN -1 ELSE IF a[i] > b[i] THEN 1 ELSE CmpFrom(a, b, i - 1)
Cmp(a, b) == IF Len(a) < Len(b) THEN -1 ELSE IF Len(a) > Len(b) THEN 1 ELSE CmpFrom(a, b, Len(a))
Leq(a, b) == Cmp(a, b) <= 0
Lt(a, b)  == Cmp(a, b) < 0

WellFormed(a) == (\A i \in 1 .. Len(a) : a[i] \in 0 .. B - 1) /\ (IF Len(a) = 0 THEN TRUE ELSE a[Len(a)] # 0)
IsZero(a) == Len(a) = 0
Same(a, b) == Len(a) = Len(b) /\ \A i \in 1 .. Len(a) : a[i] = b[i]
=============================================================================
