----------------------------- MODULE Trace_Conc -----------------------------
(***************************************************************************)
(* C15, direction B.  Validates executions recorded from REAL goroutines   *)
(* (concurrent submitters and readers over the real SQL stack, scheduled   *)
(* at repository-call granularity by the harness) against the property:    *)
(*  - every snapshot taken after a repository write and at every read is a *)
(*    structurally valid longest chain, and a reader's tip is its top;     *)
(*  - the final store equals Chain.AddRow folded over the submitted        *)
(*    headers in SOME sequential order (base prefix first).                *)
(* Events: scenario | snap | read | final   (harness op "conc").           *)
(***************************************************************************)
EXTENDS Chain, Json

VARIABLES l, sc,
          seen, allTips, cur
tcvars == <<cvars, l, sc, seen, allTips, cur>>

TraceLog == ndJsonDeserialize("conc_trace.ndjson")
Ev == TraceLog[l]

\* arrays are indexed by id + 1; "-" / -9 mark ids that are not stored
IdsOf(st)  == {k - 1 : k \in {j \in 1 .. Len(st) : st[j] # "-"}}
LOf(st)    == {i \in IdsOf(st) : st[i + 1] = "L"}
SnapValid(st, ht, par) ==
  LET L  == LOf(st)
      mh == Max({ht[i + 1] : i \in L})
  IN /\ 0 \in L
     /\ \A i, j \in L : ht[i + 1] = ht[j + 1] => i = j
     /\ {ht[i + 1] : i \in L} = 0 .. mh
     /\ \A i \in L : i = 0 \/ par[i + 1] \in L
TopOf(st, ht) == CHOOSE i \in LOf(st) : \A j \in LOf(st) : ht[j + 1] <= ht[i + 1]

Perms(S) == {f \in [1 .. Cardinality(S) -> S] : \A a, b \in 1 .. Cardinality(S) : f[a] = f[b] => a = b}
RECURSIVE FoldSeq(_, _, _, _)
FoldSeq(order, k, par, wk) ==
  IF k = 0 THEN (0 :> GenesisRow)
  ELSE LET r == FoldSeq(order, k - 1, par, wk)
           i == order[k]
       IN IF i \in DOMAIN r THEN r ELSE AddRow(r, i, par[i + 1], wk[i + 1], i)
SetOfSeq(s) == {s[k] : k \in 1 .. Len(s)}
FinalOK(e) ==
  LET conc == SetOfSeq(e.conc)
  IN \E f \in Perms(conc) :
       LET order == e.base \o [k \in 1 .. Cardinality(conc) |-> f[k]]
           r     == FoldSeq(order, Len(order), e.par, e.work)
       IN /\ DOMAIN r = IdsOf(e.st)
          /\ \A i \in DOMAIN r : r[i].st = e.st[i + 1] /\ r[i].height = e.ht[i + 1] /\ r[i].cum = e.cum[i + 1]

\* seen: per reader goroutine, the tips the table held at ANY logged moment since that reader's previous answer (its
\* current service call cannot have started earlier); allTips: the same since the scenario began; cur: the latest one
WinOf(g)  == (IF g \in DOMAIN seen THEN seen[g] ELSE allTips) \cup (IF cur >= 0 THEN {cur} ELSE {})
Note(t)   == /\ cur' = t /\ allTips' = allTips \cup {t}
             /\ seen' = [g \in DOMAIN seen |-> seen[g] \cup {t}]
TScenario == Ev.ev = "scenario" /\ sc' = Ev /\ seen' = [g \in {} |-> {}] /\ allTips' = {} /\ cur' = -2
TSnap     == Ev.ev = "snap" /\ SnapValid(Ev.st, Ev.ht, sc.par) /\ UNCHANGED sc /\ Note(TopOf(Ev.st, Ev.ht))
TRead     == Ev.ev = "read" /\ SnapValid(Ev.st, Ev.ht, sc.par) /\ Ev.tip = TopOf(Ev.st, Ev.ht) /\ UNCHANGED sc /\ Note(Ev.tip)
\* the tip a reader is ANSWERED is one the table held at some moment of that service call (linearisable reads): a read that
\* begins after an Add has finished sees the new tip, never an answer remembered from an older state
TReadRet  == Ev.ev = "readret" /\ Ev.tip \in WinOf(Ev.g) /\ UNCHANGED <<sc, cur, allTips>>
             /\ seen' = [g \in DOMAIN seen \cup {Ev.g} |-> IF g = Ev.g THEN {} ELSE seen[g]]
TFinal    == Ev.ev = "final" /\ SnapValid(Ev.st, Ev.ht, Ev.par) /\ FinalOK(Ev) /\ UNCHANGED <<sc, seen, cur, allTips>>
             /\ Ev.svctip = TopOf(Ev.st, Ev.ht) /\ Ev.httptip = TopOf(Ev.st, Ev.ht)

TraceNext == l <= Len(TraceLog) /\ l' = l + 1 /\ (TScenario \/ TSnap \/ TRead \/ TReadRet \/ TFinal) /\ UNCHANGED cvars
TraceSpec == Init /\ l = 1 /\ sc = [ev |-> "none"] /\ seen = [g \in {} |-> {}] /\ allTips = {} /\ cur = -2 /\ [][TraceNext]_tcvars
TraceAccepted == TLCGet("stats").diameter - 1 = Len(TraceLog)
=============================================================================
