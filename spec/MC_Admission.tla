---------------------------- MODULE MC_Admission ----------------------------
EXTENDS Admission, Json, SequencesExt
CONSTANTS MaxSteps, Emit, NHosts, MaxAdv,
          FillFirst     \* steering: until the peer table has held this many peers once, only connection attempts happen (0 = no steering)
HostsV == 1 .. NHosts
GroupV == [h \in 1 .. NHosts |-> (h + 1) \div 2]      \* hosts 1,2 share group 1; 3,4 group 2; ...
VARIABLES hist,
          filled     \* steering: the table has held FillFirst peers once
madvars == <<advars, hist, filled>>
HostSeq == [h \in 1 .. NHosts |-> h]
Obs == [res |-> ares', total |-> Cardinality(peers'),
        perhost |-> [h \in 1 .. NHosts |-> Cardinality({p \in peers' : p.host = h /\ p.dir # "pers"})],
        pergroup |-> [g \in 1 .. ((NHosts + 1) \div 2) |-> Cardinality({p \in peers' : GroupV[p.host] = g /\ p.dir # "in"})],
        ids |-> SetToSeq({p.id : p \in peers'})]
Log(rec) == hist' = Append(hist, rec @@ Obs) /\ filled' = (FillFirst = 0 \/ filled \/ Cardinality(peers') >= FillFirst)
MAdInit == AdInit /\ hist = <<>> /\ filled = (FillFirst = 0)
\* while filling: exactly one connection attempt per step, host after host (the lowest host with a free per-host slot)
FillHost == CHOOSE h \in Hosts : CountHost(h) < MaxPerHost /\ \A g \in 1 .. (h - 1) : CountHost(g) >= MaxPerHost
FillDir  == IF Total % 3 = 0 THEN "out" ELSE "in"
FreeNext ==
  \/ \E d \in Dirs, h \in Hosts : Add(d, h) /\ Log([op |-> "add", dir |-> d, host |-> h])
  \/ \E p \in peers : Done(p) /\ Log([op |-> "done", id |-> p.id])
  \/ \E h \in Hosts : Ban(h) /\ Log([op |-> "ban", host |-> h])
  \/ (Cardinality({k \in 1 .. Len(hist) : hist[k].op = "advance"}) < MaxAdv /\ Advance /\ Log([op |-> "advance"]))
\* steered: fill the table first (one attempt per step); at a full table the attempts worth making come from hosts that
\* still have per-host room
SteeredNext ==
  IF ~filled
    THEN Add(FillDir, FillHost) /\ Log([op |-> "add", dir |-> FillDir, host |-> FillHost])
    ELSE \/ \E d \in Dirs, h \in Hosts :
              /\ (Total < MaxPeers \/ CountHost(h) < MaxPerHost)
              /\ Add(d, h) /\ Log([op |-> "add", dir |-> d, host |-> h])
         \/ \E p \in peers : Done(p) /\ Log([op |-> "done", id |-> p.id])
         \/ \E h \in Hosts : Ban(h) /\ Log([op |-> "ban", host |-> h])
         \/ (Cardinality({k \in 1 .. Len(hist) : hist[k].op = "advance"}) < MaxAdv /\ Advance /\ Log([op |-> "advance"]))
MAdNext == Len(hist) < MaxSteps /\ (IF FillFirst = 0 THEN FreeNext ELSE SteeredNext)
MAdSpec == MAdInit /\ [][MAdNext]_madvars
AdView == <<advars, filled>>
EmitInv == (Emit = "paths" /\ Len(hist) = MaxSteps) => PrintT(ToJson([hist |-> hist]))
=============================================================================
