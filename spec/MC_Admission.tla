---------------------------- MODULE MC_Admission ----------------------------
EXTENDS Admission, Json, SequencesExt
CONSTANTS MaxSteps, Emit, NHosts, MaxAdv
HostsV == 1 .. NHosts
GroupV == [h \in 1 .. NHosts |-> (h + 1) \div 2]      \* hosts 1,2 share group 1; 3,4 group 2; ...
VARIABLE hist
madvars == <<advars, hist>>
HostSeq == [h \in 1 .. NHosts |-> h]
Obs == [res |-> ares', total |-> Cardinality(peers'),
        perhost |-> [h \in 1 .. NHosts |-> Cardinality({p \in peers' : p.host = h /\ p.dir # "pers"})],
        pergroup |-> [g \in 1 .. ((NHosts + 1) \div 2) |-> Cardinality({p \in peers' : GroupV[p.host] = g /\ p.dir # "in"})],
        ids |-> SetToSeq({p.id : p \in peers'})]
Log(rec) == hist' = Append(hist, rec @@ Obs)
MAdInit == AdInit /\ hist = <<>>
MAdNext ==
  /\ Len(hist) < MaxSteps
  /\ \/ \E d \in Dirs, h \in Hosts : Add(d, h) /\ Log([op |-> "add", dir |-> d, host |-> h])
     \/ \E p \in peers : Done(p) /\ Log([op |-> "done", id |-> p.id])
     \/ \E h \in Hosts : Ban(h) /\ Log([op |-> "ban", host |-> h])
     \/ (Cardinality({k \in 1 .. Len(hist) : hist[k].op = "advance"}) < MaxAdv /\ Advance /\ Log([op |-> "advance"]))
MAdSpec == MAdInit /\ [][MAdNext]_madvars
AdView == advars
EmitInv == (Emit = "paths" /\ Len(hist) = MaxSteps) => PrintT(ToJson([hist |-> hist]))
=============================================================================
