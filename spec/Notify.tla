------------------------------- MODULE Notify -------------------------------
(***************************************************************************)
(* Notification fan-out (notification/notification.go, chain_service.go).  *)
(* Ingestion answers each submission; a STORED header creates one delivery *)
(* task per registered channel (`go ch.Notify(event)`), tasks are          *)
(* delivered independently and in any order; a channel may be ok, failing, *)
(* slow or blocked for ever.  Submissions that are duplicates, forbidden   *)
(* or failed to store create no task.                                      *)
(***************************************************************************)
EXTENDS Integers, Sequences, FiniteSets, TLC

CONSTANTS Channels,   \* registered channels
          Mode,       \* channel -> "ok" | "error" | "slow" | "block"
          MaxSub      \* number of submissions

VARIABLES
  subs,       \* sequence of outcomes of the submissions so far: "stored" | "duplicate" | "forbidden" | "failed"
  tasks,      \* set of <<channel, k>> : delivery of the event of submission k pending on channel
  started,    \* channel -> sequence of k whose delivery was handed to the channel (Channel.Notify invoked)
  finished    \* channel -> set of k whose delivery returned

nvars == <<subs, tasks, started, finished>>

NInit == subs = <<>> /\ tasks = {} /\ started = [c \in Channels |-> <<>>] /\ finished = [c \in Channels |-> {}]

\* ingestion: NO precondition on tasks / started / finished  (ingestion never waits for a channel)
Submit(outcome) ==
  /\ Len(subs) < MaxSub
  /\ subs' = Append(subs, outcome)
  /\ tasks' = IF outcome = "stored" THEN tasks \cup {<<c, Len(subs) + 1>> : c \in Channels} ELSE tasks
  /\ UNCHANGED <<started, finished>>

\* the goroutine of one task runs: the channel's Notify is invoked exactly once for it
Start(c, k) ==
  /\ <<c, k>> \in tasks
  /\ tasks' = tasks \ {<<c, k>>}
  /\ started' = [started EXCEPT ![c] = Append(@, k)]
  /\ UNCHANGED <<subs, finished>>

\* the invocation returns (never, for a blocked channel); an error return changes nothing for anybody else
Finish(c, k) ==
  /\ Mode[c] # "block"
  /\ \E j \in 1 .. Len(started[c]) : started[c][j] = k
  /\ k \notin finished[c]
  /\ finished' = [finished EXCEPT ![c] = @ \cup {k}]
  /\ UNCHANGED <<subs, tasks, started>>

NNext == \/ \E o \in {"stored", "duplicate", "forbidden", "failed"} : Submit(o)
         \/ \E c \in Channels, k \in 1 .. MaxSub : Start(c, k) \/ Finish(c, k)
NSpec == NInit /\ [][NNext]_nvars /\ WF_nvars(\E c \in Channels, k \in 1 .. MaxSub : Start(c, k))

StoredIdx == {k \in 1 .. Len(subs) : subs[k] = "stored"}
Count(s, k) == Cardinality({j \in 1 .. Len(s) : s[j] = k})

NoEventWithoutStore == \A c \in Channels : \A j \in 1 .. Len(started[c]) : started[c][j] \in StoredIdx
AtMostOnce          == \A c \in Channels : \A k \in 1 .. MaxSub : Count(started[c], k) <= 1
Quiescent           == tasks = {}
ExactlyOncePerChannel == Quiescent => \A c \in Channels : \A k \in StoredIdx : Count(started[c], k) = 1
\* a blocked or failing channel never disables ingestion or another channel's delivery
IngestionNeverWaits == Len(subs) < MaxSub => ENABLED Submit("stored")
ChannelsIndependent == \A c \in Channels, k \in 1 .. MaxSub : <<c, k>> \in tasks => ENABLED Start(c, k)
EventuallyDelivered == \A c \in Channels : \A k \in 1 .. MaxSub :
                          [](k \in StoredIdx => <>(Count(started[c], k) = 1))
=============================================================================
