--------------------------- MODULE MC_ApiErrors ---------------------------
EXTENDS ApiErrors, Json, SequencesExt
EmitInv == dummy = 0 => PrintT(ToJson([rows |-> SetToSeq(Rows)]))
=============================================================================
