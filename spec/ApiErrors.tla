----------------------------- MODULE ApiErrors -----------------------------
(***************************************************************************)
(* C16: the answer CLASS of every API route for every class of path        *)
(* parameter, query parameter and body.  A request is a route plus one     *)
(* class per parameter; Expected gives the status family the server owes:  *)
(*   "2xx"  every parameter is well formed and refers to stored data       *)
(*   "4xx"  some parameter is a client mistake the server can validate     *)
(*   "2xx4xx" the text leaves it open (e.g. a negative height: empty 200   *)
(*          list or a 4xx are both fine)                                   *)
(* and, for every row: never 5xx, the store untouched, the body exactly    *)
(* one JSON document, a 4xx body an object with non-empty code+message.    *)
(***************************************************************************)
EXTENDS Integers, Sequences, FiniteSets, TLC

VARIABLE dummy

HashClasses == {"longest", "stale", "orphan", "genesis", "unknown", "malformed", "overlong"}
NumClasses  == {"valid", "zero", "missing", "nonnumeric", "negative", "huge", "float", "overflow64", "empty"}
ListBodies  == {"valid", "single", "emptylist", "withgenesis", "withunknown", "withorphan", "duplicates", "emptybody", "object", "numbers", "truncated", "nonjson", "null", "long"}
VerifyBodies == {"valid", "absurdlength", "emptylist", "emptybody", "object", "wrongtypes", "negativeheight", "hugeheight", "truncated", "nonjson", "null", "long", "missingfields"}
WebhookBodies == {"valid", "nourl", "emptybody", "array", "wrongtypes", "truncated", "nonjson", "null", "longurl"}
UrlClasses  == {"registered", "unregistered", "missing", "empty", "weird"}
KeyClasses  == {"none", "longestroot", "staleroot", "unknown", "weird"}
TokClasses  == {"issued", "unknown", "weird"}
AuthRoutes  == {"AUTH GET tip/longest", "AUTH GET header/byHeight", "AUTH POST access", "AUTH POST merkleroot/verify", "AUTH GET webhook"}
AuthHeaderClasses == {"none", "schemeOnly", "schemeAndSpace", "oneChar", "shortWord", "lowercaseScheme", "basic", "extraParts", "unknownToken", "veryLong", "binary"}

HashOK(h)  == h \in {"longest", "stale", "orphan", "genesis"}
HashBad(h) == h \in {"unknown", "malformed", "overlong"}
NumBad(n)  == n \in {"nonnumeric", "float", "overflow64", "empty"}

Fam(ok, bad) == IF bad THEN "4xx" ELSE IF ok THEN "2xx" ELSE "2xx4xx"

Rows ==
     {[route |-> "GET header/:hash",        p |-> <<h>>, exp |-> Fam(HashOK(h), HashBad(h))] : h \in HashClasses}
  \cup {[route |-> "GET header/state/:hash",  p |-> <<h>>, exp |-> Fam(HashOK(h), HashBad(h))] : h \in HashClasses}
  \cup {[route |-> "GET header/byHeight",     p |-> <<n, m>>,
         exp |-> Fam(n \in {"valid", "zero"} /\ m \in {"valid", "missing", "zero"}, NumBad(n) \/ n = "missing")] : n \in NumClasses, m \in NumClasses}
  \cup {[route |-> "GET header/:a/:b/ancestor", p |-> <<a, b>>, exp |-> Fam(FALSE, HashBad(a) \/ HashBad(b))] : a \in HashClasses, b \in HashClasses}
  \cup {[route |-> "POST header/commonAncestor", p |-> <<b>>,
         exp |-> Fam(b \in {"valid"}, b \in {"emptylist", "withgenesis", "withunknown", "emptybody", "object", "numbers", "truncated", "nonjson", "null"})] : b \in ListBodies}
  \cup {[route |-> "GET tip", p |-> <<>>, exp |-> "2xx"], [route |-> "GET tip/longest", p |-> <<>>, exp |-> "2xx"],
        [route |-> "GET network/peer", p |-> <<>>, exp |-> "2xx"], [route |-> "GET network/peer/count", p |-> <<>>, exp |-> "2xx"]}
  \cup {[route |-> "POST merkleroot/verify", p |-> <<b>>,
         exp |-> Fam(b \in {"valid", "negativeheight", "hugeheight", "long", "absurdlength"}, b \in {"emptylist", "emptybody", "object", "wrongtypes", "truncated", "nonjson", "null"})] : b \in VerifyBodies}
  \cup {[route |-> "GET merkleroot", p |-> <<n, k>>,
         exp |-> Fam(n \in {"valid", "zero", "missing", "huge"} /\ k \in {"none", "longestroot"},
                     NumBad(n) \/ n = "negative" \/ k \in {"staleroot", "unknown", "weird"})] : n \in NumClasses, k \in KeyClasses}
  \cup {[route |-> "POST webhook", p |-> <<b>>,
         exp |-> Fam(b = "valid", b \in {"nourl", "emptybody", "array", "wrongtypes", "truncated", "nonjson", "null"})] : b \in WebhookBodies}
  \cup {[route |-> "GET webhook", p |-> <<u>>, exp |-> Fam(u = "registered", u \in {"unregistered", "missing", "empty", "weird"})] : u \in UrlClasses}
  \cup {[route |-> "DELETE webhook", p |-> <<u>>, exp |-> Fam(u = "registered", u \in {"unregistered", "missing", "empty", "weird"})] : u \in UrlClasses}
  \cup {[route |-> "POST access", p |-> <<>>, exp |-> "2xx"], [route |-> "GET access", p |-> <<>>, exp |-> "2xx4xx"]}
  \cup {[route |-> "DELETE access/:token", p |-> <<t>>, exp |-> "2xx4xx"] : t \in TokClasses}
  \* with authentication ON: whatever stands in the Authorization header, short of a valid token the answer is a structured 4xx
  \cup {[route |-> r, p |-> <<a>>, exp |-> "4xx"] : r \in AuthRoutes, a \in AuthHeaderClasses}

\* the specification's own sanity: no row owes a 5xx, validatable mistakes owe a 4xx
NoFiveHundred == dummy = 0 => \A r \in Rows : r.exp \in {"2xx", "4xx", "2xx4xx"}
MistakesAre4xx == dummy = 0 =>
  /\ \A r \in Rows : (r.route = "GET header/byHeight" /\ r.p[1] \in {"missing", "nonnumeric"}) => r.exp = "4xx"
  /\ \A r \in Rows : (r.route = "POST header/commonAncestor" /\ r.p[1] \in {"emptylist", "withgenesis", "nonjson"}) => r.exp = "4xx"
  /\ \A r \in Rows : (r.route = "POST webhook" /\ r.p[1] = "nonjson") => r.exp = "4xx"

EInit == dummy = 0
ENext == UNCHANGED dummy
ESpec == EInit /\ [][ENext]_dummy
=============================================================================
