------------------------------ MODULE ConnMgr ------------------------------
(***************************************************************************)
(* C18 (second half): the outbound connection manager                       *)
(* (transports/p2p/connmgr/connmanager.go connHandler + handleFailedConn).  *)
(* A request is created, gets an address, is dialled; a failed dial counts  *)
(* against its address (ban at BanAt failures) and asks for a new request;  *)
(* a closed connection is replaced while fewer than Target are established. *)
(* "Live" requests = dials in flight + established connections.             *)
(***************************************************************************)
EXTENDS Integers, Sequences, FiniteSets, TLC

CONSTANTS Target, BanAt, Addrs, MaxFails, MaxDisc, Deviations

VARIABLES inflight,   \* request ids being dialled -> address
          conns,      \* established request ids -> address
          fails,      \* address -> consecutive failures
          bannedA,    \* banned addresses
          nreq, nfail, ndisc, started

cmvars == <<inflight, conns, fails, bannedA, nreq, nfail, ndisc, started>>

Dom(f) == DOMAIN f
CmInit == /\ inflight = [r \in {} |-> 0] /\ conns = [r \in {} |-> 0] /\ fails = [a \in Addrs |-> 0]
          /\ bannedA = {} /\ nreq = 0 /\ nfail = 0 /\ ndisc = 0 /\ started = FALSE

\* a new request picks any address that is not banned (GetNewAddress)
NewReq(fl, a) == (nreq + 1 :> a) @@ fl

Start ==
  /\ ~started /\ started' = TRUE
  /\ \E f \in [1 .. Target -> Addrs \ bannedA] : inflight' = [r \in 1 .. Target |-> f[r]]
  /\ nreq' = Target
  /\ UNCHANGED <<conns, fails, bannedA, nfail, ndisc>>

DialOK(r) ==
  /\ r \in Dom(inflight)
  /\ conns' = (r :> inflight[r]) @@ conns
  /\ inflight' = [x \in Dom(inflight) \ {r} |-> inflight[x]]
  /\ fails' = [fails EXCEPT ![inflight[r]] = 0]
  /\ UNCHANGED <<bannedA, nreq, nfail, ndisc, started>>

\* failure bookkeeping shared by a failed dial and by a closed connection that is to be replaced
Failed(a, rest) ==
  LET n == fails[a] + 1 IN
  /\ fails' = [fails EXCEPT ![a] = n]
  /\ IF n >= BanAt
       THEN /\ bannedA' = bannedA \cup {a}
            /\ IF "BanLosesSlot" \in Deviations
                 THEN inflight' = rest /\ nreq' = nreq        \* as the code was: ban, and NO replacement request
                 ELSE \E b \in Addrs \ (bannedA \cup {a}) : inflight' = NewReq(rest, b) /\ nreq' = nreq + 1
       ELSE /\ bannedA' = bannedA
            /\ \E b \in Addrs \ bannedA : inflight' = NewReq(rest, b) /\ nreq' = nreq + 1

DialFail(r) ==
  /\ r \in Dom(inflight) /\ nfail < MaxFails
  /\ nfail' = nfail + 1
  /\ Failed(inflight[r], [x \in Dom(inflight) \ {r} |-> inflight[x]])
  /\ UNCHANGED <<conns, ndisc, started>>

\* the server reports a closed outbound connection (Disconnect(id) with retry)
Disconnect(r) ==
  /\ r \in Dom(conns) /\ ndisc < MaxDisc
  /\ ndisc' = ndisc + 1
  /\ conns' = [x \in Dom(conns) \ {r} |-> conns[x]]
  /\ Failed(conns[r], inflight)
  /\ UNCHANGED <<nfail, started>>

CmNext == Start \/ \E r \in 1 .. (Target + MaxFails + MaxDisc + 2) : DialOK(r) \/ DialFail(r) \/ Disconnect(r)
CmSpec == CmInit /\ [][CmNext]_cmvars /\ WF_cmvars(Start) /\ WF_cmvars(\E r \in 1 .. (Target + MaxFails + MaxDisc + 2) : DialOK(r))

Live == Cardinality(Dom(inflight)) + Cardinality(Dom(conns))
OpenAtMostTarget == Cardinality(Dom(conns)) <= Target
LiveAtMostTarget == Live <= Target
NoDialToBanned   == \A r \in Dom(inflight) : inflight[r] \notin bannedA \/ fails[inflight[r]] >= BanAt
\* every slot stays alive: the manager keeps asking and dialling until the target is reached again
SlotsNeverLost   == started => Live = Target
BackToTarget     == <>[](Cardinality(Dom(conns)) = Target)
=============================================================================
