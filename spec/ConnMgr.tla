------------------------------ MODULE ConnMgr ------------------------------
(***************************************************************************)
(* C18 (second half): the outbound connection manager                       *)
(* (transports/p2p/connmgr/connmanager.go connHandler + handleFailedConn).  *)
(* A request is created, gets an address, is dialled; a failed dial counts  *)
(* against its address (ban at BanAt failures) and asks for a new request;  *)
(* a closed connection is replaced while fewer than Target are established. *)
(* A request first ASKS for an address (GetNewAddress); when none can be    *)
(* had it fails without an address: such failures are counted globally and  *)
(* from GMax consecutive ones on the replacement is created by a retry      *)
(* timer (one timer per failed request) instead of at once.                 *)
(* "Live" requests = asking + timers pending + dials in flight + established.*)
(***************************************************************************)
EXTENDS Integers, Sequences, FiniteSets, TLC

CONSTANTS Target, BanAt, Addrs, MaxFails, MaxDisc, Deviations,
          GMax,        \* maxFailedAttempts for address-less failures (25 in the code)
          MaxDrought   \* how often the address source may dry up

VARIABLES inflight,   \* request ids being dialled -> address
          conns,      \* established request ids -> address
          fails,      \* address -> consecutive failures
          bannedA,    \* banned addresses
          nreq, nfail, ndisc, started,
          asking,     \* requests registered and waiting for GetNewAddress
          waiting,    \* retry timers pending (each will create one request)
          gfails,     \* consecutive failures of requests without an address
          drought, ndrought   \* the address source is dry; how often that happened

cmvars == <<inflight, conns, fails, bannedA, nreq, nfail, ndisc, started, asking, waiting, gfails, drought, ndrought>>

Dom(f) == DOMAIN f
CmInit == /\ inflight = [r \in {} |-> 0] /\ conns = [r \in {} |-> 0] /\ fails = [a \in Addrs |-> 0]
          /\ bannedA = {} /\ nreq = 0 /\ nfail = 0 /\ ndisc = 0 /\ started = FALSE
          /\ asking = 0 /\ waiting = 0 /\ gfails = 0 /\ drought = FALSE /\ ndrought = 0

\* a new request picks any address that is not banned (GetNewAddress)
NewReq(fl, a) == (nreq + 1 :> a) @@ fl

Start ==
  /\ ~started /\ started' = TRUE
  /\ asking' = Target
  /\ UNCHANGED <<inflight, conns, fails, bannedA, nreq, nfail, ndisc, waiting, gfails, drought, ndrought>>

\* a registered request obtains an address and is dialled
GetAddr ==
  /\ asking > 0 /\ ~drought
  /\ \E b \in Addrs \ bannedA : inflight' = NewReq(inflight, b)
  /\ nreq' = nreq + 1 /\ asking' = asking - 1
  /\ UNCHANGED <<conns, fails, bannedA, nfail, ndisc, started, waiting, gfails, drought, ndrought>>

\* no address can be had: the request fails without one; its replacement is created at once, or by a timer once
\* GMax such failures happened in a row
NoAddr ==
  /\ asking > 0 /\ drought /\ nfail < MaxFails
  /\ nfail' = nfail + 1 /\ gfails' = gfails + 1
  /\ IF gfails + 1 >= GMax THEN asking' = asking - 1 /\ waiting' = (IF "TimersCoalesce" \in Deviations THEN 1 ELSE waiting + 1)   \* one timer PER failed request
                           ELSE UNCHANGED <<asking, waiting>>
  /\ UNCHANGED <<inflight, conns, fails, bannedA, nreq, ndisc, started, drought, ndrought>>

TimerFires ==
  /\ waiting > 0 /\ waiting' = waiting - 1 /\ asking' = asking + 1
  /\ UNCHANGED <<inflight, conns, fails, bannedA, nreq, nfail, ndisc, started, gfails, drought, ndrought>>

DroughtBegins == /\ ~drought /\ ndrought < MaxDrought /\ drought' = TRUE /\ ndrought' = ndrought + 1
                 /\ UNCHANGED <<inflight, conns, fails, bannedA, nreq, nfail, ndisc, started, asking, waiting, gfails>>
DroughtEnds   == /\ drought /\ drought' = FALSE
                 /\ UNCHANGED <<inflight, conns, fails, bannedA, nreq, nfail, ndisc, started, asking, waiting, gfails, ndrought>>

DialOK(r) ==
  /\ r \in Dom(inflight)
  /\ conns' = (r :> inflight[r]) @@ conns
  /\ inflight' = [x \in Dom(inflight) \ {r} |-> inflight[x]]
  /\ fails' = [fails EXCEPT ![inflight[r]] = 0] /\ gfails' = 0          \* resetFailedAttempts
  /\ UNCHANGED <<bannedA, nreq, nfail, ndisc, started, asking, waiting, drought, ndrought>>

\* failure bookkeeping shared by a failed dial and by a closed connection that is to be replaced
Failed(a, rest) ==
  LET n == fails[a] + 1 IN
  /\ fails' = [fails EXCEPT ![a] = n]
  /\ inflight' = rest /\ nreq' = nreq
  /\ bannedA' = IF n >= BanAt THEN bannedA \cup {a} ELSE bannedA
  /\ IF n >= BanAt /\ "BanLosesSlot" \in Deviations
       THEN asking' = asking                    \* as the code was: ban, and NO replacement request
       ELSE asking' = asking + 1                \* go cm.NewConnReq()
  /\ UNCHANGED <<waiting, gfails, drought, ndrought>>

DialFail(r) ==
  /\ r \in Dom(inflight) /\ nfail < MaxFails
  /\ nfail' = nfail + 1
  /\ Failed(inflight[r], [x \in Dom(inflight) \ {r} |-> inflight[x]])
  /\ UNCHANGED <<conns, ndisc, started>>

\* the server reports a closed outbound connection (Disconnect(id) with retry)
Disconnect(r) ==
  /\ r \in Dom(conns) /\ ndisc < MaxDisc
  /\ ndisc' = ndisc + 1
  /\ conns' = [x \in Dom(conns) \ {r} |-> conns[x]]
  /\ Failed(conns[r], inflight)
  /\ UNCHANGED <<nfail, started>>

Reqs == 1 .. (Target + MaxFails + MaxDisc + 2)
CmNext == \/ Start \/ GetAddr \/ NoAddr \/ TimerFires \/ DroughtBegins \/ DroughtEnds
          \/ \E r \in Reqs : DialOK(r) \/ DialFail(r) \/ Disconnect(r)
\* fairness: the manager runs, timers fire, a drought ends, dials that can succeed do
CmSpec == CmInit /\ [][CmNext]_cmvars /\ WF_cmvars(Start) /\ WF_cmvars(GetAddr) /\ WF_cmvars(TimerFires) /\ WF_cmvars(DroughtEnds)
                 /\ WF_cmvars(\E r \in Reqs : DialOK(r))

Live == asking + waiting + Cardinality(Dom(inflight)) + Cardinality(Dom(conns))
OpenAtMostTarget == Cardinality(Dom(conns)) <= Target
LiveAtMostTarget == Live <= Target
NoDialToBanned   == \A r \in Dom(inflight) : inflight[r] \notin bannedA \/ fails[inflight[r]] >= BanAt
\* every slot stays alive: the manager keeps asking and dialling until the target is reached again
SlotsNeverLost   == started => Live = Target
BackToTarget     == <>[](Cardinality(Dom(conns)) = Target)
=============================================================================
