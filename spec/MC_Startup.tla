---------------------------- MODULE MC_Startup ----------------------------
(* Generation harness for Startup.tla: every behaviour = an initial database + the starts made on it; per start the    *)
(* answer (started | killed | refused) and the disk state it leaves.                                                 *)
EXTENDS Startup, Json, SequencesExt

CONSTANTS Emit
VARIABLE hist, init0
mvars == <<vars, hist, init0>>

HSeq == SetToSeq(HdrIds)
MInit == Init /\ hist = <<>>
              /\ init0 = [ver |-> ver, gen |-> gen, hdrs |-> [k \in 1 .. Len(HSeq) |-> hdrs[HSeq[k]]], ids |-> HSeq,
                          tok |-> (toks # {}), hook |-> hook]
MNext == Next /\ hist' = (IF out' # out THEN Append(hist, out') ELSE hist) /\ UNCHANGED init0
MSpec == MInit /\ [][MNext]_mvars

View == vars
Terminal == \/ pc = "up" /\ nstop = MaxStops
            \/ pc = "down" /\ dirty /\ out.res = "refused"
EmitInv == (Emit = "paths" /\ Terminal) => PrintT(ToJson([init |-> init0, hist |-> hist]))
=============================================================================
