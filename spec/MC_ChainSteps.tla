--------------------------- MODULE MC_ChainSteps ---------------------------
(* Model-checking / generation harness for ChainSteps.tla.                  *)
(*  - property runs: VIEW hides hist; invariants of C05 / C15;              *)
(*  - generation (Emit = "paths", one submitter): every maximal history of  *)
(*    completed operations - incl. the injected kill / failing write, the   *)
(*    restart and the redelivery - with the expected answer and the         *)
(*    expected projection of the store after each one (same JSON shape as   *)
(*    MC_Chain, plus "fault").                                              *)
EXTENDS ChainSteps, Json, SequencesExt

CONSTANTS MaxOps, Emit

VARIABLE hist
msvars == <<svars, hist>>

SnapSt(r, n) == [k \in 1 .. n |-> IF (k - 1) \in DOMAIN r THEN r[k - 1].st ELSE "-"]
SnapH(r, n)  == [k \in 1 .. n |-> IF (k - 1) \in DOMAIN r THEN r[k - 1].height ELSE -9]
SnapC(r, n)  == [k \in 1 .. n |-> IF (k - 1) \in DOMAIN r THEN r[k - 1].cum ELSE -9]

Rec == LET i == out'.id IN
  (IF out'.res = "restart"
     THEN [op |-> "restart", res |-> "restart", dev |-> "",
           fault |-> IF DOMAIN rows = {} THEN "kill@genesis" ELSE "none"]   \* the restart after a killed FIRST start
     ELSE [op |-> "add", id |-> i, parent |-> decl'[i], work |-> hdr'[i].w, root |-> hdr'[i].root, forb |-> FALSE,
           res |-> out'.res, fault |-> out'.fault,
           dev |-> IF out'.res = "L" /\ hdr'[i].w = 0 /\ "ZeroWorkTipExtension" \in Deviations THEN "ZeroWorkTipExtension" ELSE ""])
  @@ [st |-> SnapSt(rows', next'), ht |-> SnapH(rows', next'), cum |-> SnapC(rows', next'), tip |-> SqlTipOf(rows')]

MSInit == SInit /\ hist = <<>>
MSNext == /\ Len(hist) < MaxOps
          /\ SNext
          /\ hist' = IF out' # out THEN Append(hist, Rec) ELSE hist
MSSpec == MSInit /\ [][MSNext]_msvars

SView == svars

AllIdle  == \A p \in Procs : ps[p].pc = "idle"
Terminal == AllIdle /\ ~down /\ redo = <<>> /\ (Len(hist) = MaxOps \/ next > MaxN)
EmitInv  == (Emit = "paths" /\ Terminal) => PrintT(ToJson([hist |-> hist]))
=============================================================================
