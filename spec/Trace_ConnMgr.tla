--------------------------- MODULE Trace_ConnMgr ---------------------------
(* C18, direction B: executions of the REAL connection manager (connmgr.New with scripted Dial / GetNewAddress /    *)
(* BanAddress / OnConnection, millisecond retry) recorded under one mutex with a sequence number, validated against  *)
(* the properties of ConnMgr.tla: never more open connections than the target; a ban only after the address failed   *)
(* BanAt consecutive times (a dial already in flight may still reach an address banned meanwhile); when the environment lets dials succeed the manager is back *)
(* at its target at every quiescent point (it kept asking for addresses and dialling).                               *)
EXTENDS Integers, Sequences, FiniteSets, TLC, Json

VARIABLES l, open, fails, bannedA, target
tcm == <<l, open, fails, bannedA, target>>
TraceLog == ndJsonDeserialize("connmgr_trace.ndjson")
Ev == TraceLog[l]
BanAt == 25

F(a) == IF a \in DOMAIN fails THEN fails[a] ELSE 0
SetF(a, n) == [x \in DOMAIN fails \cup {a} |-> IF x = a THEN n ELSE fails[x]]

TStart   == Ev.ev = "start" /\ open' = {} /\ fails' = [x \in {} |-> 0] /\ bannedA' = {} /\ target' = Ev.target
TDialOK  == Ev.ev = "dial" /\ Ev.ok /\ fails' = SetF(Ev.addr, 0) /\ UNCHANGED <<open, bannedA, target>>
TDialBad == Ev.ev = "dial" /\ ~Ev.ok /\ fails' = SetF(Ev.addr, F(Ev.addr) + 1) /\ UNCHANGED <<open, bannedA, target>>
TConn    == Ev.ev = "connected" /\ open' = open \cup {Ev.id} /\ Cardinality(open') <= target /\ UNCHANGED <<fails, bannedA, target>>
TDisc    == Ev.ev = "disconnect" /\ Ev.id \in open /\ fails' = SetF(Ev.addr, F(Ev.addr) + 1) /\ UNCHANGED <<open, bannedA, target>>
TClosed  == Ev.ev = "closed" /\ open' = open \ {Ev.id} /\ UNCHANGED <<fails, bannedA, target>>
TBan     == Ev.ev = "ban" /\ F(Ev.addr) >= BanAt /\ bannedA' = bannedA \cup {Ev.addr} /\ UNCHANGED <<open, fails, target>>
\* an address drought (GetNewAddress fails) / the end of an outage: nothing changes in the book-keeping; what is checked is
\* that the manager is back at its target at the next quiescent point although replacements went through the retry timer
\* "disconnect-again": a second Disconnect for a connection that was reported closed already changes nothing (ConnMgr.tla has
\* no action for it); the manager must still never hold more than its target
TNoAddr  == Ev.ev \in {"noaddr", "recovered", "disconnect-again"} /\ UNCHANGED <<open, fails, bannedA, target>>
TQuiesce == Ev.ev = "quiesce" /\ Cardinality(open) = target /\ Ev.open = target /\ UNCHANGED <<open, fails, bannedA, target>>

TraceNext == l <= Len(TraceLog) /\ l' = l + 1 /\ (TStart \/ TDialOK \/ TDialBad \/ TConn \/ TDisc \/ TClosed \/ TBan \/ TNoAddr \/ TQuiesce)
TraceSpec == l = 1 /\ open = {} /\ fails = [x \in {} |-> 0] /\ bannedA = {} /\ target = 0 /\ [][TraceNext]_tcm
OpenAtMostTarget == Cardinality(open) <= target \/ target = 0
TraceAccepted == TLCGet("stats").diameter - 1 = Len(TraceLog)
=============================================================================
