----------------------------- MODULE WsRecovery -----------------------------
(***************************************************************************)
(* C11 for a websocket SUBSCRIBER across reconnections.                    *)
(*                                                                         *)
(* Every stored header is published on the `headers` channel with a        *)
(* history of `history_max` publications (notification/websocket.go,       *)
(* WithHistory) and subscriptions are positioned and recoverable           *)
(* (transports/websocket/websocket_server.go).  A subscriber that was away *)
(* while k headers were published and comes back therefore                 *)
(*   - receives exactly the k publications it missed, in order, when       *)
(*     k <= history_max  (and is told Recovered), or                       *)
(*   - is TOLD that it could not recover (WasRecovering and not Recovered) *)
(*     - it must reload the chain through the API -, never silently        *)
(*     continues with a gap.                                               *)
(* "Exactly one ADD event per stored header" thus holds for a subscriber   *)
(* over its whole life unless it has been told otherwise.                  *)
(* The history's time limit (history_ttl, minutes) is not modelled: the    *)
(* replay completes in milliseconds.                                       *)
(***************************************************************************)
EXTENDS Integers, Sequences, FiniteSets, TLC

CONSTANTS HistoryMax,   \* publications kept for recovery
          MaxPub,       \* publications per behaviour
          MaxAway       \* disconnections per behaviour

VARIABLES
  pubs,       \* number of publications so far (= offset of the newest)
  pos,        \* offset up to which the subscriber has received
  online,     \* the subscriber is connected and subscribed
  recv,       \* what the subscriber has received, in order (offsets)
  told,       \* the subscriber has been told, at some reconnection, that recovery failed
  naway,
  wobs        \* last event, for the replay

wsvars == <<pubs, pos, online, recv, told, naway, wobs>>

WsInit == pubs = 0 /\ pos = 0 /\ online = TRUE /\ recv = <<>> /\ told = FALSE /\ naway = 0 /\ wobs = [ev |-> "init"]

Range(a, b) == [k \in 1 .. (b - a + 1) |-> a + k - 1]

Publish ==
  /\ pubs < MaxPub
  /\ pubs' = pubs + 1
  /\ recv' = IF online THEN Append(recv, pubs + 1) ELSE recv
  /\ pos' = IF online THEN pubs + 1 ELSE pos
  /\ wobs' = [ev |-> "publish", n |-> pubs + 1]
  /\ UNCHANGED <<online, told, naway>>

GoAway ==
  /\ online /\ naway < MaxAway
  /\ online' = FALSE /\ naway' = naway + 1
  /\ wobs' = [ev |-> "away"]
  /\ UNCHANGED <<pubs, pos, recv, told>>

ComeBack ==
  /\ ~online
  /\ online' = TRUE
  /\ LET missed == pubs - pos
         ok == missed <= HistoryMax
     IN /\ recv' = IF ok THEN recv \o Range(pos + 1, pubs) ELSE recv
        /\ told' = (told \/ ~ok)
        /\ wobs' = [ev |-> "back", missed |-> missed, recovered |-> ok]
  /\ pos' = pubs
  /\ UNCHANGED <<pubs, naway>>

WsNext == Publish \/ GoAway \/ ComeBack
WsSpec == WsInit /\ [][WsNext]_wsvars

-----------------------------------------------------------------------------
NoDuplicates == \A i, j \in 1 .. Len(recv) : recv[i] = recv[j] => i = j
InOrder      == \A i \in 1 .. Len(recv) - 1 : recv[i] < recv[i + 1]
\* exactly once, unless told
ExactlyOnceOrTold == (online /\ ~told) => recv = Range(1, pubs)
NeverSilentGap == online => (told \/ Len(recv) = pubs)
=============================================================================
