----------------------------- MODULE MC_Access -----------------------------
EXTENDS Access, Json, SequencesExt
CONSTANTS MaxSteps, Emit
VARIABLE hist
mavars == <<avars, hist>>

ValidVec == [k \in 1 .. Unknown + 1 |-> Valid(k - 1)]
Step(rec) == hist' = Append(hist, rec @@ [res |-> lastRes', valid |-> ValidVec'])

MAInit == AInit /\ hist = <<>>
MANext ==
  /\ Len(hist) < MaxSteps
  /\ \/ \E as \in {Admin, 1, Unknown} : Create(as) /\ Step([op |-> "create", as |-> as])
     \/ \E as \in {Admin, 1}, x \in Toks : Revoke(as, x) /\ Step([op |-> "revoke", as |-> as, x |-> x])
     \/ (Len(hist) > 0 /\ hist[Len(hist)].op # "restart" /\ RestartA /\ Step([op |-> "restart"]))
MASpec == MAInit /\ [][MANext]_mavars
AView == avars
EmitInv ==
  CASE Emit = "paths" -> (Len(hist) = MaxSteps => PrintT(ToJson([hist |-> hist])))
    [] Emit = "table" -> PrintT(ToJson([table |-> SetToSeq(DecisionTable)]))
    [] OTHER -> TRUE
=============================================================================
