----------------------------- MODULE MC_Access -----------------------------
EXTENDS Access, Json, SequencesExt
CONSTANTS MaxSteps, Emit
VARIABLE hist
mavars == <<avars, hist>>

ValidVec == [k \in 1 .. Plus + 1 |-> Valid(k - 1)]
AdminVec == [k \in 1 .. Plus + 1 |-> IsAdmin(k - 1)]
Step(rec) == hist' = Append(hist, rec @@ [res |-> lastRes', valid |-> ValidVec', admin |-> AdminVec'])

MAInit == AInit /\ hist = <<>>
MANext ==
  /\ Len(hist) < MaxSteps
  /\ \/ \E as \in {Admin, 1, Unknown} \cup (IF gen = 1 THEN {Admin2} ELSE {Prefix}) : Create(as) /\ Step([op |-> "create", as |-> as])
     \/ \E as \in {CurAdmin, 1} \cup (IF gen = 1 THEN {Admin} ELSE {Plus}), x \in 0 .. Unknown : Revoke(as, x) /\ Step([op |-> "revoke", as |-> as, x |-> x])
     \/ (RotateA /\ Step([op |-> "rotate"]))
     \/ (Len(hist) > 0 /\ hist[Len(hist)].op # "restart" /\ RestartA /\ Step([op |-> "restart"]))
MASpec == MAInit /\ [][MANext]_mavars
AView == avars
EmitInv ==
  CASE Emit = "paths" -> (Len(hist) = MaxSteps => PrintT(ToJson([hist |-> hist])))
    [] Emit = "table" -> PrintT(ToJson([table |-> SetToSeq(DecisionTable)]))
    [] OTHER -> TRUE
=============================================================================
