-------------------------------- MODULE Sync --------------------------------
(***************************************************************************)
(* Header synchronisation of the legacy P2P engine (C06, C07):             *)
(* transports/p2p/p2psync/manager.go (SyncManager), the duplicate          *)
(* getheaders filter of transports/p2p/peer, and scripted protocol nodes.  *)
(*                                                                         *)
(* One action per manager handler (handleNewPeerMsg, handleHeadersMsg,     *)
(* handleInvMsg, handleDonePeerMsg) - they run in one goroutine, so each   *)
(* is atomic - and one action per environment event (a node connects,      *)
(* answers its oldest getheaders, announces, grows, goes away).            *)
(* The store is an instance of Chain.tla: headers are ingested with the    *)
(* ideal rule AddRow.  All blocks of the universe have work 1.             *)
(***************************************************************************)
EXTENDS Chain

CONSTANTS
  Par,          \* block universe: id -> parent id (0 = genesis); ids 1..NB
  Peers,        \* scripted nodes
  Cap,          \* maximum number of headers per headers message (2000 in the protocol)
  Cps,          \* checkpoints: set of block ids of the honest chain, the service's configuration
  CpEnabled,    \* BOOLEAN (disable_checkpoints = FALSE)
  Forbid,       \* block ids on the forbidden list
  Findings      \* names of known findings whose behaviour the specification follows (see known_findings.jsonl)

VARIABLES
  nd,        \* p -> [conn, best, version]   node side: connected?, its current tip (block id), height sent in `version`
  pk,        \* p -> [known, cand, last, prevB, prevS]  manager's view: in peerStates, SyncCandidate, LastBlock, duplicate filter
  syncPeer,  \* 0 = none
  hf,        \* headersFirstMode
  nextCp,    \* block id of the next checkpoint, 0 = nil
  mq,        \* FIFO of messages for the manager
  nq,        \* p -> FIFO of getheaders requests [loc, stop] for node p
  ban,       \* hosts (= peers) the service banned
  lastSent   \* observation: getheaders / disconnects issued by the last manager step

syvars == <<cvars, nd, pk, syncPeer, hf, nextCp, mq, nq, ban, lastSent>>

Blocks  == DOMAIN Par
RECURSIVE HOf(_)
HOf(b)  == IF b = 0 THEN 0 ELSE 1 + HOf(Par[b])
RECURSIVE ChainOf(_)
ChainOf(b) == IF b = 0 THEN {0} ELSE {b} \cup ChainOf(Par[b])
AtH(b, h)  == CHOOSE x \in ChainOf(b) : HOf(x) = h       \* the block at height h of the chain ending in b

CpHeights == {HOf(c) : c \in Cps}
LastCpH   == IF Cps = {} THEN 0 ELSE Max(CpHeights)
CpAtH(h)  == CHOOSE c \in Cps : HOf(c) = h

\* findNextHeaderCheckpoint(height): the lowest checkpoint strictly above height, or nil
FindNextCp(h) == IF Cps = {} \/ h >= LastCpH THEN 0
                 ELSE CpAtH(Min({x \in CpHeights : x > h}))

StoreTipH == rows[Tip].height
\* HeaderService.IsCurrent: at or beyond the newest checkpoint and the tip is fresh (every scripted block is fresh, genesis is not)
StoreCurrent == (Cps = {} \/ StoreTipH >= LastCpH) /\ Tip # 0
MgrCurrent   == StoreCurrent /\ (syncPeer = 0 \/ StoreTipH >= pk[syncPeer].last)

\* p2psync.New: the checkpoint cursor and the headers-first flag are derived from the height of the stored tip
NewCp(h) == IF CpEnabled THEN FindNextCp(h) ELSE 0
NewHf(h) == (CpEnabled /\ FindNextCp(h) = 0) \/ (~CpEnabled /\ "DisabledCheckpointsRejectHeaders" \notin Findings)
NoPeer   == [known |-> FALSE, cand |-> FALSE, last |-> 0, prevB |-> -1, prevS |-> -2]

SyInit ==
  /\ Init
  /\ nd = [p \in Peers |-> [conn |-> FALSE, best |-> 0, version |-> 0]]
  /\ pk = [p \in Peers |-> NoPeer]
  /\ syncPeer = 0
  /\ nextCp = NewCp(0)
  /\ hf = NewHf(0)
  /\ mq = <<>> /\ nq = [p \in Peers |-> <<>>] /\ ban = {} /\ lastSent = <<>>

-----------------------------------------------------------------------------
(* manager side helpers: they compute new values of pk / nq / lastSent from given ones *)

\* PushGetHeadersMsg with the duplicate filter of the peer object
Push(st, p, loc, stop) ==    \* st = [pk, nq, sent]
  LET b == IF loc = <<>> THEN -1 ELSE loc[1] IN
  IF st.pk[p].prevB = b /\ st.pk[p].prevS = stop /\ b # -1
    THEN st
    ELSE [pk   |-> [st.pk EXCEPT ![p].prevB = b, ![p].prevS = stop],
          nq   |-> [st.nq EXCEPT ![p] = Append(@, [loc |-> loc, stop |-> stop])],
          sent |-> Append(st.sent, [t |-> "gh", to |-> p, loc |-> loc, stop |-> stop])]

LocOf(r) == LET t  == TipOf(r)
                hs == LocatorHeights(r[t].height)
            IN [k \in 1 .. Len(hs) |-> CHOOSE i \in LongestOf(r) : r[i].height = hs[k]]

\* startSync: candidates by LastBlock; the choice among the best (or equal) ones is random in the code
Candidates(pkv, r) ==
  LET best == r[TipOf(r)].height
      cs   == {p \in Peers : pkv[p].known /\ pkv[p].cand}
      up   == {p \in cs : pkv[p].last > best}
      eq   == {p \in cs : pkv[p].last = best}
  IN IF up # {} THEN up ELSE eq
DropLagging(pkv, r) ==
  [p \in Peers |-> IF pkv[p].known /\ pkv[p].cand /\ pkv[p].last < r[TipOf(r)].height THEN [pkv[p] EXCEPT !.cand = FALSE] ELSE pkv[p]]

\* returns the set of possible outcomes [pk, nq, sent, sync, hf]
StartSync(st, r, sp, hfv, ncp) ==
  IF sp # 0 THEN {[pk |-> st.pk, nq |-> st.nq, sent |-> st.sent, sync |-> sp, hf |-> hfv]}
  ELSE LET cands == Candidates(st.pk, r)
           pk1   == DropLagging(st.pk, r)
           st1   == [st EXCEPT !.pk = pk1]
       IN IF cands = {} THEN {[pk |-> pk1, nq |-> st.nq, sent |-> st.sent, sync |-> 0, hf |-> hfv]}
          ELSE {LET useCp == ncp # 0 /\ r[TipOf(r)].height < HOf(ncp)
                    s2    == Push(st1, c, LocOf(r), IF useCp THEN ncp ELSE -1)
                IN [pk |-> s2.pk, nq |-> s2.nq, sent |-> s2.sent, sync |-> c, hf |-> (hfv \/ useCp)] : c \in cands}

-----------------------------------------------------------------------------
(* environment *)

CloseByService(p) == [t |-> "closed", to |-> p, loc |-> <<>>, stop |-> -1]

\* a node completes the handshake; its version message carries the height of its best chain
Connect(p, b) ==
  /\ ~nd[p].conn /\ p \notin ban /\ ~pk[p].known
  /\ b \in Blocks \cup {0}
  /\ nd' = [nd EXCEPT ![p] = [conn |-> TRUE, best |-> b, version |-> HOf(b)]]
  /\ mq' = Append(mq, [t |-> "new", p |-> p, h |-> HOf(b)])
  /\ nq' = [nq EXCEPT ![p] = <<>>]            \* a new connection: nothing is pending on it
  /\ lastSent' = <<>>
  /\ UNCHANGED <<cvars, pk, syncPeer, hf, nextCp, ban>>

\* a node of a banned host connects again: the sync manager hears of it (OnVersion), the server refuses it
ConnectBanned(p, b) ==
  /\ ~nd[p].conn /\ p \in ban /\ ~pk[p].known
  /\ b \in Blocks \cup {0}
  /\ nd' = [nd EXCEPT ![p] = [conn |-> FALSE, best |-> b, version |-> HOf(b)]]
  /\ mq' = mq \o <<[t |-> "new", p |-> p, h |-> HOf(b)], [t |-> "done", p |-> p]>>
  /\ lastSent' = <<CloseByService(p)>>
  /\ UNCHANGED <<cvars, pk, syncPeer, hf, nextCp, nq, ban>>

\* protocol-conformant answer to the oldest getheaders: the headers after the first locator entry the node has on
\* its best chain (after genesis if none), at most Cap, not beyond the stop hash
ReplyIds(p, rq) ==
  LET mine  == ChainOf(nd[p].best)
      hits  == {k \in 1 .. Len(rq.loc) : rq.loc[k] \in mine}
      start == IF hits = {} THEN 0 ELSE HOf(rq.loc[Min(hits)])
      top   == HOf(nd[p].best)
      stopH == IF rq.stop \in mine /\ rq.stop # -1 /\ HOf(rq.stop) > start THEN HOf(rq.stop) ELSE top
      end   == Min({start + Cap, stopH, top})
  IN IF end <= start THEN <<>> ELSE [k \in 1 .. (end - start) |-> AtH(nd[p].best, start + k)]

\* the service's peer object reads a headers message: the duplicate-getheaders filter of that peer is cleared
\* (fix of D6; with the finding listed the filter is never cleared, as the code was)
ClearFilter(p) == IF "DuplicateFilterNeverCleared" \in Findings THEN pk
                  ELSE [pk EXCEPT ![p].prevB = -1, ![p].prevS = -2]

NodeReply(p) ==
  /\ nd[p].conn /\ nq[p] # <<>>
  /\ mq' = Append(mq, [t |-> "hdrs", p |-> p, ids |-> ReplyIds(p, Head(nq[p]))])
  /\ nq' = [nq EXCEPT ![p] = Tail(@)]
  /\ pk' = ClearFilter(p)
  /\ lastSent' = <<>>
  /\ UNCHANGED <<cvars, nd, syncPeer, hf, nextCp, ban>>

\* a node that does NOT honour the stop hash (C07: any position of an offending header within any batch): it sends the
\* next headers of its chain up to the cap
ReplyIdsRaw(p, rq) == ReplyIds(p, [rq EXCEPT !.stop = -1])
NodeReplyRaw(p) ==
  /\ nd[p].conn /\ nq[p] # <<>>
  /\ mq' = Append(mq, [t |-> "hdrs", p |-> p, ids |-> ReplyIdsRaw(p, Head(nq[p]))])
  /\ nq' = [nq EXCEPT ![p] = Tail(@)]
  /\ pk' = ClearFilter(p)
  /\ lastSent' = <<>>
  /\ UNCHANGED <<cvars, nd, syncPeer, hf, nextCp, ban>>

\* the node's chain advances to block b (a child of its tip, or a switch to a longer branch) and it announces it
NodeAnnounce(p, b, how) ==
  /\ nd[p].conn /\ b \in Blocks /\ HOf(b) > HOf(nd[p].best)
  /\ nd' = [nd EXCEPT ![p].best = b]
  /\ mq' = Append(mq, IF how = "inv" THEN [t |-> "inv", p |-> p, id |-> b]
                       ELSE [t |-> "hdrs", p |-> p, ids |-> <<b>>])
  /\ pk' = IF how = "inv" THEN pk ELSE ClearFilter(p)
  /\ lastSent' = <<>>
  /\ UNCHANGED <<cvars, syncPeer, hf, nextCp, nq, ban>>

\* the node goes away (or the service closed the connection): the server reports it to the manager
NodeClose(p) ==
  /\ nd[p].conn
  /\ nd' = [nd EXCEPT ![p].conn = FALSE]
  /\ nq' = [nq EXCEPT ![p] = <<>>]
  /\ mq' = Append(mq, [t |-> "done", p |-> p])
  /\ lastSent' = <<>>
  /\ UNCHANGED <<cvars, pk, syncPeer, hf, nextCp, ban>>

\* the service as a SERVER of headers (serverpeer.OnGetHeaders, C13 at the protocol level): a connected node asks with a
\* locator and a stop hash; the request is ignored unless the manager believes it is current, otherwise the answer is
\* Chain!GetHeaders (at most 2000).  Nothing changes in the service.
Served(loc, stop) == IF MgrCurrent THEN [sent |-> TRUE, ids |-> GetHeaders(loc, stop, 2000)]
                     ELSE [sent |-> FALSE, ids |-> <<>>]
NodeAsk(p) == /\ nd[p].conn /\ lastSent' = <<>>
              /\ UNCHANGED <<cvars, nd, pk, syncPeer, hf, nextCp, mq, nq, ban>>

\* the process is stopped and started again on the same database: every connection goes down, the manager, the peer
\* objects and the server's ban list are rebuilt from nothing but the store (p2psync.New, newServer)
RestartSrv ==
  /\ nd' = [p \in Peers |-> [nd[p] EXCEPT !.conn = FALSE]]
  /\ pk' = [p \in Peers |-> NoPeer]
  /\ syncPeer' = 0 /\ nextCp' = NewCp(StoreTipH) /\ hf' = NewHf(StoreTipH)
  /\ mq' = <<>> /\ nq' = [p \in Peers |-> <<>>] /\ ban' = {} /\ lastSent' = <<>>
  /\ UNCHANGED cvars

-----------------------------------------------------------------------------
(* manager handlers (one atomic step each) *)

Base == [pk |-> pk, nq |-> nq, sent |-> <<>>]

MgrNew(m) ==
  LET pk1 == [pk EXCEPT ![m.p] = [known |-> TRUE, cand |-> TRUE, last |-> m.h, prevB |-> -1, prevS |-> -2]]
  IN \E o \in StartSync([Base EXCEPT !.pk = pk1], rows, syncPeer, hf, nextCp) :
       /\ pk' = o.pk /\ nq' = o.nq /\ lastSent' = o.sent /\ syncPeer' = o.sync /\ hf' = o.hf
       /\ UNCHANGED <<cvars, nextCp, ban>>

\* C07: a NEW header stored at the height of a checkpoint must be that checkpoint, or its sender is disconnected.
\* verifyCheckpointHeight compares only with the single next-expected checkpoint (listed finding
\* "C1-only-next-checkpoint-compared"): a contradiction at the height of a later checkpoint (a batch that runs past the
\* stop hash) or of one already passed goes unnoticed.
CpMismatch(b, ht, ncp) ==
  IF "C1-only-next-checkpoint-compared" \in Findings
    THEN ncp # 0 /\ ht = HOf(ncp) /\ b # ncp
    ELSE CpEnabled /\ ht \in CpHeights /\ b # CpAtH(ht)

\* ingestion of a batch: fold over the headers; stops at a forbidden header or a checkpoint mismatch
RECURSIVE Ingest(_, _, _, _, _)
\* returns [rows, final, gotCp, stop]   stop \in {"", "forbidden", "cpmismatch"}
Ingest(r, ids, k, acc, ncp) ==
  IF k > Len(ids) THEN acc
  ELSE LET b == ids[k] IN
       IF b \in DOMAIN acc.rows THEN Ingest(r, ids, k + 1, acc, ncp)                       \* HeaderAlreadyExists: continue
       ELSE IF b \in Forbid THEN [acc EXCEPT !.stop = "forbidden"]
       ELSE LET r2  == AddRow(acc.rows, b, Par[b], 1, b)
                ht  == r2[b].height
                a2  == [acc EXCEPT !.rows = r2]
            IN IF CpMismatch(b, ht, ncp) THEN [a2 EXCEPT !.stop = "cpmismatch"]
               ELSE LET a3 == IF ncp # 0 /\ b = ncp THEN [a2 EXCEPT !.gotCp = TRUE] ELSE a2
                        a4 == IF r2[b].st = "L" THEN [a3 EXCEPT !.final = b] ELSE a3
                    IN Ingest(r, ids, k + 1, a4, ncp)

MgrHeaders(m) ==
  LET p == m.p IN
  IF ~pk[p].known THEN UNCHANGED <<cvars, pk, syncPeer, hf, nextCp, nq, ban>> /\ lastSent' = <<>>
  ELSE IF ~hf THEN        \* "unrequested headers": the peer is disconnected
    /\ lastSent' = <<CloseByService(p)>>
    /\ UNCHANGED <<cvars, pk, syncPeer, hf, nextCp, nq, ban>>
  ELSE IF m.ids = <<>> THEN UNCHANGED <<cvars, pk, syncPeer, hf, nextCp, nq, ban>> /\ lastSent' = <<>>
  ELSE
    LET res == Ingest(rows, m.ids, 1, [rows |-> rows, final |-> 0, gotCp |-> FALSE, stop |-> ""], nextCp)
    IN /\ rows' = res.rows
       /\ UNCHANGED <<decl, forbs, next, result, devused, syncPeer, hf>>
       /\ CASE res.stop = "forbidden" ->
                 /\ ban' = ban \cup {p} /\ lastSent' = <<CloseByService(p)>> /\ UNCHANGED <<pk, nq, nextCp>>
            [] res.stop = "cpmismatch" ->
                 /\ lastSent' = <<CloseByService(p)>> /\ UNCHANGED <<pk, nq, nextCp, ban>>
            [] res.final = 0 ->                                   \* only known headers: nothing further is requested
                 /\ lastSent' = <<>> /\ UNCHANGED <<pk, nq, nextCp, ban>>
            [] OTHER ->
                 LET ncp2 == IF res.gotCp THEN FindNextCp(HOf(nextCp)) ELSE nextCp
                     st   == IF res.gotCp /\ ncp2 # 0 THEN Push(Base, p, <<nextCp>>, ncp2)
                             ELSE IF ncp2 = 0 THEN Push(Base, p, LocOf(res.rows), -1)
                             ELSE Push(Base, p, LocOf(res.rows), ncp2)
                 IN /\ nextCp' = ncp2 /\ pk' = st.pk /\ nq' = st.nq /\ lastSent' = st.sent /\ UNCHANGED ban

MgrInv(m) ==
  LET p == m.p IN
  /\ UNCHANGED <<cvars, syncPeer, hf, nextCp, ban>>
  /\ IF ~pk[p].known \/ (p # syncPeer /\ ~MgrCurrent)
       THEN UNCHANGED <<pk, nq>> /\ lastSent' = <<>>              \* invs of non-sync peers are dropped while catching up
     ELSE IF MgrCurrent /\ m.id \in Stored
       THEN pk' = [pk EXCEPT ![p].last = rows[m.id].height] /\ UNCHANGED nq /\ lastSent' = <<>>
     ELSE LET st == Push(Base, p, LocOf(rows), -1)
          IN pk' = st.pk /\ nq' = st.nq /\ lastSent' = st.sent

MgrDone(m) ==
  LET p == m.p IN
  IF ~pk[p].known THEN UNCHANGED <<cvars, pk, syncPeer, hf, nextCp, nq, ban>> /\ lastSent' = <<>>
  ELSE LET pk1 == [pk EXCEPT ![p].known = FALSE, ![p].cand = FALSE] IN
       IF p # syncPeer
         THEN pk' = pk1 /\ lastSent' = <<>> /\ UNCHANGED <<cvars, syncPeer, hf, nextCp, nq, ban>>
         ELSE \E o \in StartSync([Base EXCEPT !.pk = pk1], rows, 0, hf, nextCp) :
                /\ pk' = o.pk /\ nq' = o.nq /\ lastSent' = o.sent /\ syncPeer' = o.sync /\ hf' = o.hf
                /\ UNCHANGED <<cvars, nextCp, ban>>

\* peers the service disconnected in this step: their connection goes down and the server reports "done"
ClosedIn(sent) == {sent[k].to : k \in {j \in 1 .. Len(sent) : sent[j].t = "closed"}}
RECURSIVE DoneMsgs(_)
DoneMsgs(S) == IF S = {} THEN <<>> ELSE LET p == CHOOSE x \in S : TRUE IN <<[t |-> "done", p |-> p]>> \o DoneMsgs(S \ {p})

MgrStep ==
  /\ mq # <<>>
  /\ LET m == Head(mq) IN
       CASE m.t = "new"  -> MgrNew(m)
         [] m.t = "hdrs" -> MgrHeaders(m)
         [] m.t = "inv"  -> MgrInv(m)
         [] m.t = "done" -> MgrDone(m)
  /\ LET cl == {p \in ClosedIn(lastSent') : nd[p].conn} IN
       /\ nd' = [p \in Peers |-> IF p \in cl THEN [nd[p] EXCEPT !.conn = FALSE] ELSE nd[p]]
       /\ mq' = Tail(mq) \o DoneMsgs(cl)

EnvStep == \/ \E p \in Peers, b \in Blocks \cup {0} : Connect(p, b) \/ ConnectBanned(p, b)
           \/ \E p \in Peers : NodeReply(p) \/ NodeReplyRaw(p) \/ NodeClose(p)
           \/ \E p \in Peers, b \in Blocks, how \in {"inv", "headers"} : NodeAnnounce(p, b, how)
           \/ RestartSrv
           \/ \E p \in Peers : NodeAsk(p)

SyNext == MgrStep \/ (mq = <<>> /\ EnvStep)
\* fairness: the manager handles what it receives; connected nodes answer what they were asked (assumption E2)
SySpec == SyInit /\ [][SyNext]_syvars /\ WF_syvars(MgrStep) /\ \A p \in Peers : WF_syvars(NodeReply(p))

-----------------------------------------------------------------------------
(* properties *)

ForbiddenNeverStoredS == Forbid \cap Stored = {}
OnlyLongestRequested  == \A p \in Peers : \A k \in 1 .. Len(nq[p]) :
                            \A j \in 1 .. Len(nq[p][k].loc) : nq[p][k].loc[j] \in Longest \/ nq[p][k].loc[j] \in Cps
NoRequestToUnknown    == \A p \in Peers : nq[p] # <<>> => (pk[p].known \/ nd[p].conn)
BannedStayOut         == \A p \in ban : ~nd[p].conn          \* a banned host has no live connection: it is cut when banned and refused afterwards
StoreValid            == StructValid

\* best chain offered by the connected honest nodes
Offered    == {nd[p].best : p \in {q \in Peers : nd[q].conn}}
BestOffered == IF Offered = {} THEN 0 ELSE CHOOSE b \in Offered : \A c \in Offered : HOf(c) <= HOf(b)
Quiet      == mq = <<>> /\ \A p \in Peers : nq[p] = <<>>
\* C06 (safety form): when nothing is in flight and an honest node is connected, the store holds that node's best
\* chain.  Checked on the lock-step behaviours; the known findings L1-L3 are excluded by the scenario constraints.
ConvergedWhenQuiet == (Quiet /\ Offered # {}) => BestOffered \in Stored
Converges == <>[](Quiet => (Offered = {} \/ BestOffered \in Stored))
=============================================================================
