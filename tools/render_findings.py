#!/usr/bin/env python3
"""Render known_findings.jsonl (the file the checks read) as one line per entry in known_findings.txt."""
import json, os
V = os.path.dirname(os.path.dirname(os.path.abspath(__file__)))
out = ["# generated from known_findings.jsonl by tools/render_findings.py - the checks read the .jsonl file, never write either",
       "# fixed entries suppress nothing; a listed finding is printed as KNOWN-FINDING only when a run witnesses it", ""]
for line in open(os.path.join(V, "known_findings.jsonl")):
    line = line.strip()
    if not line or line.startswith("#"):
        continue
    f = json.loads(line)
    if f["status"] == "fixed":
        out.append("fixed: property=%s %s %s (%s)" % (f["property"], f.get("commit", "?"), f["what"], f.get("id", "")))
    else:
        key = f.get("deviation") or ",".join(f.get("sites", [])) or f.get("id", "")
        out.append("finding: property=%s %s [%s] %s -- where: %s" % (f["property"], f.get("id", ""), key, f["what"], f.get("where", "")))
open(os.path.join(V, "known_findings.txt"), "w").write("\n".join(out) + "\n")
print(len(out) - 3, "entries")
