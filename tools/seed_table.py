#!/usr/bin/env python3
"""Print the markdown table of seeded changes (DESIGN.md §10.5) from seeded/*/meta.json."""
import glob, json, os, re
V = os.path.dirname(os.path.dirname(os.path.abspath(__file__)))
print("| change | what was changed (one line) | caught by | how it shows |")
print("|---|---|---|---|")
for d in sorted(glob.glob(os.path.join(V, "seeded", "*", ""))):
    m = json.load(open(os.path.join(d, "meta.json")))
    name = os.path.basename(os.path.dirname(d))
    s = (m.get("summary") or "").replace("\n", " ").replace("|", "/")
    s = re.split(r"(?<=[a-z\)])\. ", s)[0][:230]
    det = ", ".join(m.get("detected_by") or []) or ("**not caught** - needs calls the service never makes, §10.7b" if m.get("missed_because") else "**missed**")
    how = ""
    for k, r in (m.get("verif_checks") or m.get("checks") or {}).items():
        for ln in r.get("lines", []):
            if not ln.startswith("VIOLATION"):
                how = ln.strip().replace("|", "/")[:170]
                break
        if how:
            break
    print("| %s | %s | %s | %s |" % (name, s, det, how))
