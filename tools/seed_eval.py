#!/usr/bin/env python3
"""Confirm a seeded defect in a scratch worktree and run the /verif check against it.
usage: tools/seed_eval.py <PROP> <srcdir with patch.diff demo* meta.json> <name> [--checks C01,C03] [--tier quick]"""
import json, os, shutil, subprocess, sys, time
V = os.path.dirname(os.path.dirname(os.path.abspath(__file__)))


def sh(cmd, cwd=None, timeout=3600):
    env = dict(os.environ, GOFLAGS="-mod=mod", GOPROXY="off")
    p = subprocess.run(["bash", "-c", cmd], cwd=cwd, capture_output=True, text=True, env=env, timeout=timeout)
    return p.returncode, p.stdout + p.stderr


def main():
    prop, src, name = sys.argv[1:4]
    checks = [prop]
    tier = "quick"
    for i, a in enumerate(sys.argv):
        if a == "--checks":
            checks = sys.argv[i + 1].split(",")
        if a == "--tier":
            tier = sys.argv[i + 1]
    skip_confirm = "--skip-confirm" in sys.argv
    wt = "/tmp/seedwt_" + name.replace("/", "_")
    meta = json.load(open(os.path.join(src, "meta.json")))
    patch = os.path.abspath(os.path.join(src, "patch.diff"))
    res = {"ran": []}
    if not skip_confirm:
        sh("git -C /repo worktree remove --force %s; rm -rf %s" % (wt, wt))
        rc, out = sh("git -C /repo worktree add -q --detach %s HEAD" % wt)
        assert rc == 0, out
        try:
            rc, out = sh("git apply %s" % patch, cwd=wt)
            res["patch_applies"] = rc == 0
            if rc != 0:
                print("PATCH DOES NOT APPLY", out)
                res["apply_error"] = out[-500:]
            else:
                rc, out = sh("go build ./... && go test -vet=off -count=1 -p 1 ./... 2>&1 | grep -v 'no test files'", cwd=wt)
                fails = [l for l in out.splitlines() if l.startswith("FAIL") or l.startswith("--- FAIL")]
                fails = [l for l in fails if "TestMerkleRootsFailure" not in l]
                hard = [l for l in fails if l.startswith("--- FAIL")]
                res["suite_passes_with_patch"] = not hard and "FAIL\t" not in "\n".join(l for l in fails if "merkleroots" not in l)
                res["suite_fail_lines"] = fails[:10]
                # demo: with patch must fail
                demo_cmd = meta["demo_cmd"].replace("<worktree>", wt).replace("/tmp/seed5_" + prop, wt).replace("/tmp/seed4_" + prop, wt).replace("/tmp/seed3_" + prop, wt).replace("/tmp/seed2_" + prop, wt).replace("/tmp/seed_" + prop, wt)
                for f in os.listdir(src):
                    if f.startswith("demo"):
                        demo_cmd = demo_cmd.replace("cp " + f, "cp " + os.path.join(os.path.abspath(src), f))
                rc1, out1 = sh(demo_cmd, cwd=wt)
                res["demo_fails_with_patch"] = rc1 != 0
                res["demo_with_patch_tail"] = out1[-600:]
                sh("git apply -R %s" % patch, cwd=wt)
                rc2, out2 = sh(demo_cmd, cwd=wt)
                res["demo_passes_without_patch"] = rc2 == 0
                if rc2 != 0:
                    res["demo_without_patch_tail"] = out2[-800:]
                res["ran"].append(demo_cmd)
        finally:
            sh("git -C /repo worktree remove --force %s; rm -rf %s" % (wt, wt))
    if "--confirm-only" in sys.argv:
        # merge the confirmation into a meta.json written earlier by a --skip-confirm run (checks and confirmation in parallel)
        mp = os.path.join(V, "seeded", name, "meta.json")
        m = json.load(open(mp)) if os.path.exists(mp) else dict(meta, breaks_property=prop)
        m["confirmation"] = res
        os.makedirs(os.path.dirname(mp), exist_ok=True)
        json.dump(m, open(mp, "w"), indent=1)
        print(json.dumps(res, indent=1)[:2000])
        return
    # run the checks against the patched tree.  Default: a scratch worktree of /repo with the patch applied, handed to the
    # checks through VERIF_REPO (so /repo itself is never touched and other runs can use it meanwhile);
    # --in-repo applies the patch to /repo itself and undoes it afterwards.
    res["checks"] = {}
    in_repo = "--in-repo" in sys.argv
    if in_repo:
        rc, out = sh("git -C /repo status --porcelain")
        assert out.strip() == "", "/repo not clean: " + out
        target, undo = "/repo", "git -C /repo checkout -- . && git -C /repo clean -fdq"
    else:
        target = "/tmp/seedrun_" + name.replace("/", "_")
        sh("git -C /repo worktree remove --force %s; rm -rf %s" % (target, target))
        rc, out = sh("git -C /repo worktree add --detach %s HEAD" % target)
        undo = "git -C /repo worktree remove --force %s; rm -rf %s" % (target, target)
    rc, out = sh("git -C %s apply %s" % (target, patch))
    if rc == 0:
        try:
            for ck in checks:
                t0 = time.time()
                rc, out = sh("VERIF_REPO=%s ./check %s --tier %s" % (target, ck, tier), cwd=V)
                v = [l for l in out.splitlines() if l.startswith("VIOLATION") or l.startswith("  ")][:4]
                res["checks"][ck] = {"exit": rc, "wall_s": round(time.time() - t0, 1), "lines": v}
                res["ran"].append("patch.diff applied to %s; VERIF_REPO=<that tree> ./check %s --tier %s" % ("/repo (undone afterwards)" if in_repo else "a scratch worktree of /repo", ck, tier))
        finally:
            sh(undo)
    else:
        res["checks"]["apply_error"] = out[-400:]
        sh(undo)
    dst = os.path.join(V, "seeded", name)
    os.makedirs(dst, exist_ok=True)
    for f in os.listdir(src):
        if f != "meta.json":
            shutil.copy(os.path.join(src, f), dst)
    old = {}
    mp = os.path.join(dst, "meta.json")
    if os.path.exists(mp) and skip_confirm:
        old = json.load(open(mp))
    m = dict(meta)
    m["breaks_property"] = prop
    conf = {k: v for k, v in res.items() if k != "checks"}
    if skip_confirm and "confirmation" in old:
        conf = old["confirmation"]
    m["confirmation"] = conf
    m["verif_checks"] = res["checks"]
    m["detected_by"] = [k for k, v in res["checks"].items() if isinstance(v, dict) and v.get("exit") == 1]
    json.dump(m, open(mp, "w"), indent=1)
    print(json.dumps({k: v for k, v in m.items() if k in ("confirmation", "verif_checks", "detected_by")}, indent=1)[:3000])


if __name__ == "__main__":
    main()
