#!/usr/bin/env python3
"""Refresh the seeded-changes table of DESIGN.md §10.5 from seeded/*/meta.json."""
import os, subprocess, re
V = os.path.dirname(os.path.dirname(os.path.abspath(__file__)))
t = subprocess.run(["python3", os.path.join(V, "tools", "seed_table.py")], capture_output=True, text=True, check=True).stdout
p = os.path.join(V, "DESIGN.md")
s = open(p).read()
s = re.sub(r"<!-- SEEDTABLE BEGIN -->.*?<!-- SEEDTABLE END -->", lambda m: "<!-- SEEDTABLE BEGIN -->\n" + t + "<!-- SEEDTABLE END -->", s, flags=re.S)
open(p, "w").write(s)
